"""C01: save -> load reproduces the IR exactly.

Oracle: snapshot(ir) == snapshot(load(save(ir))) over public attributes
(vlib.snapshot), deep_eq in both directions, and the re-saved file has the same
content (canonical message comparison; AuxData bytes of never-read tables
byte for byte).  The built IR itself is first compared with the snapshot the
spec implies (reference writer + reference reader of vlib.refmsg).
"""

import io

from vlib import auxref, irbuild, pbt, refmsg, smallir, snapshot, spec as specmod, spectags

ID = "C01"
LEVEL = "exploration"
RULE = (
    "cases: Hypothesis-generated self-contained IR specs (0-3 modules, sections, intervals, code/data/proxy "
    "blocks, symbols with value/referent/none payloads, SymAddrConst/SymAddrAddr with known and unknown "
    "attributes, CFG edges with None / all-false / arbitrary labels, AuxData at IR and module level, every "
    "schema enum number, scalars biased to 0, 2^64-1, int64 bounds, empty / non-ASCII / NUL names) realised "
    "through the API along a generated construction route (parent= keywords, constructor children, collection "
    "add/update/|=/append/insert/extend, parent-attribute assignment, attributes in the constructor or "
    "afterwards); half of the shards run under the pure-Python protobuf backend; non-trivial = (>= 2 modules "
    "or all of symbol referent, entry point, edge and symbolic expression present) and >= 1 boundary value; "
    "distinct = SHA-1 of canonical JSON"
)
ASSUMPTIONS = [
    "IR.version is the API's protobuf version (other values are unloadable by design)",
    "entry points name a code block of any module of the IR; symbol and expression references stay inside their module (the property's definition of a self-contained IR)",
    "AuxData uses types this API has codecs for (unknown types are property C14)",
]
REQUIRED_TAGS = {
    "quick": ["foreign-ir-activity", "ref:entry-in-later-module", "ref:entry-in-earlier-module", "second-generation-edits", "modules>=2", "b:address-0", "b:value-0", "b:label-all-false", "b:label-none", "b:unknown-attr", "aux:ir", "aux:module", "ref:symaddraddr"],
    "thorough": ["foreign-ir-activity", "ref:entry-in-later-module", "ref:entry-in-earlier-module", "second-generation-edits", "modules>=2", "b:address-0", "b:value-0", "b:label-all-false", "b:label-none", "b:unknown-attr", "aux:ir", "aux:module", "ref:symaddraddr"],
}


def _gt():
    import gtirb

    return gtirb


def save(ir):
    buf = io.BytesIO()
    ir.save_protobuf_file(buf)
    return buf.getvalue()


def parse(data):
    from gtirb.proto import IR_pb2

    msg = IR_pb2.IR()
    msg.ParseFromString(data[8:])
    return msg


def run_case(case):
    g = _gt()
    res = pbt.CaseResult()
    spec = case["spec"]
    r = specmod.validate(spec)
    if not spectags.KNOWN_ATTRS:
        spectags.init_known()
    t = spectags.tags(r)
    res.tag(*sorted(t))
    res.nontrivial = spectags.nontrivial_c01(t)
    try:
        B = irbuild.build(g, spec, r)
    except irbuild.BuildFailure as e:
        res.fail("C01:api-refuses-valid-construction", str(e))
        return res
    except pbt.CaseTimeout:
        raise
    except auxref.Unbuildable:
        # no Python value of an AuxData type can be handed to the API
        res.tag("skipped:unbuildable-value")
        return res
    except Exception as e:
        res.fail(pbt.exception_bucket("C01:construction", e), repr(e))
        return res
    ir = B.ir
    if case.get("foreign") is not None:
        # an unrelated IR with tables of partly unknown types is loaded, read
        # and saved in this process (before this IR's save, or before its load)
        res.tag("foreign-ir-activity")
        if case["foreign"] % 2 == 0:
            smallir.foreign_activity(g, case["foreign"] // 2)
    snap_a = snapshot.snapshot(g, ir)
    want = refmsg.expected_snapshot(refmsg.from_spec(r, B.module_order))
    d = snapshot.diff(want, snap_a)
    if d:
        res.fail("C01:built-ir-differs-from-spec", d)
        return res
    try:
        data = save(ir)
    except Exception as e:
        res.fail(pbt.exception_bucket("C01:save", e), repr(e))
        return res
    if case.get("foreign") is not None and case["foreign"] % 2 == 1:
        smallir.foreign_activity(g, case["foreign"] // 2)
    try:
        ir2 = g.IR.load_protobuf_file(io.BytesIO(data))
    except Exception as e:
        res.fail(pbt.exception_bucket("C01:load", e), repr(e))
        return res
    # second generation is written before any AuxData of ir2 has been read
    try:
        data2 = save(ir2)
    except Exception as e:
        res.fail(pbt.exception_bucket("C01:resave", e), repr(e))
        return res
    if not (ir.deep_eq(ir2) is True):
        res.fail("C01:deep_eq-original-loaded", "ir.deep_eq(loaded) is not True")
    if not (ir2.deep_eq(ir) is True):
        res.fail("C01:deep_eq-loaded-original", "loaded.deep_eq(ir) is not True")
    snap_b = snapshot.snapshot(g, ir2)
    d = snapshot.diff(snap_a, snap_b)
    if d:
        res.fail("C01:roundtrip-differs", d)
    # decoded AuxData values of the loaded IR: leaves naming attached nodes are
    # those node objects, everything else equals the stored value
    node = {}
    for kind, nspec, u in r.nodes:
        n = ir2.get_by_uuid(u)
        if n is not None:
            node[u] = n
    for holder_spec, holder in [(spec["ir"], ir2)] + [
        (mi["spec"], node.get(r.uuid(mi["spec"]))) for mi in r.mods
    ]:
        if holder is None:
            continue
        for a in holder_spec["aux"]:
            tree, jv = r.aux_value(a)
            ad = holder.aux_data.get(a["key"])
            if ad is None:
                continue  # reported by the snapshot comparison
            want = auxref.expected_python(tree, jv, g, lambda u: node.get(u))
            msg = auxref.same(tree, want, ad.data, g)
            if msg:
                res.fail("C01:auxdata-decoded-value-differs", "%r %s: %s" % (a["key"], ad.type_name, msg))
    m1, m2 = parse(data), parse(data2)
    d = snapshot.diff(refmsg.canon_msg(m1), refmsg.canon_msg(m2))
    if d:
        res.fail("C01:resaved-file-differs", d)
    for holder1, holder2, where in [(m1, m2, "ir")] + [
        (a, b, "module %d" % i) for i, (a, b) in enumerate(zip(m1.modules, m2.modules))
    ]:
        for key in holder1.aux_data:
            if key in holder2.aux_data and holder1.aux_data[key].data != holder2.aux_data[key].data:
                res.fail(
                    "C01:unread-auxdata-bytes-rewritten",
                    "%s aux %r: %s -> %s" % (where, key, holder1.aux_data[key].data.hex(), holder2.aux_data[key].data.hex()),
                )
    second_generation_edits(g, dict(case, _built_ir=ir), r, ir2, node, res)
    if res.failures:
        return res
    # third generation: every AuxData of ir2 has been read by snapshot()
    try:
        m3 = parse(save(ir2))
    except Exception as e:
        res.fail(pbt.exception_bucket("C01:resave-after-read", e), repr(e))
        return res
    d = snapshot.diff(refmsg.canon_msg(m1), refmsg.canon_msg(m3))
    if d:
        res.fail("C01:resaved-after-read-differs", d)
    return res


def perturb_jv(tree, jv):
    """a different value of the same type (for assignments to loaded tables)"""
    name, subs = tree
    if name in auxref.INT_TYPES:
        lo, hi = auxref.int_range(name)
        return jv + 1 if jv < hi else jv - 1
    if name == "bool":
        return not jv
    if name == "string":
        return jv + "\u00e9"
    if name in ("float", "double"):
        return {"f": "4008000000000000"} if jv["f"] != "4008000000000000" else {"f": "3ff0000000000000"}
    if name == "UUID":
        return {"u": "%032x" % ((int(jv["u"], 16) ^ 1) | (1 << 120))}
    if name == "Offset":
        return {"o": jv["o"], "d": (jv["d"] + 1) % (1 << 64)}
    if name == "sequence":
        return jv + jv[:1] if jv else jv
    if name in ("set", "mapping"):
        return jv[1:] if jv else jv
    if name == "tuple":
        return [perturb_jv(subs[0], jv[0])] + jv[1:]
    if name == "variant":
        return {"i": jv["i"], "v": perturb_jv(subs[jv["i"]], jv["v"])}
    return jv


def second_generation_edits(g, case, r, ir2, node, res):
    """A loaded IR is edited through the API (AuxData assigned without having
    been read on this object, attributes, payloads, a new symbol) and must
    round-trip again: loaded-then-edited IRs are IRs built through the API too."""
    edits = case.get("edits") or []
    if not edits:
        return
    from vlib import tngrammar

    res.tag("second-generation-edits")
    if case.get("edit_target"):
        # the originally built IR, which has been saved once already: a later
        # save must reflect the edits (no stale serialisation state)
        ir_fresh = case["_built_ir"]
    else:
        ir_fresh = g.IR.load_protobuf_file(io.BytesIO(save(ir2)))  # nothing read on this object yet
    lookup = ir_fresh.get_by_uuid
    expected_aux = {}
    holders = [(r.spec["ir"], ir_fresh)] + [(mi["spec"], lookup(r.uuid(mi["spec"]))) for mi in r.mods]
    for n_edit, e in enumerate(edits):
        kind = e % 9
        if kind == 0:
            for hs, holder in holders:
                for a in hs["aux"]:
                    tree, jv = r.aux_value(a)
                    new = perturb_jv(tree, jv)
                    holder.aux_data[a["key"]].data = auxref.to_python(tree, new, g, lookup)
                    expected_aux[(id(hs), a["key"])] = (tree, new)
        elif kind == 1 and r.mods:
            m = lookup(r.uuid(r.mods[e % len(r.mods)]["spec"]))
            m.name = m.name + "'"
            m.rebase_delta = -m.rebase_delta - 1
        elif kind == 2:
            bis = [lookup(r.uuid(bi)) for mi in r.mods for bi in mi["intervals"]]
            if bis:
                bi = bis[e % len(bis)]
                bi.address = None if bi.address is not None else 0
        elif kind == 3:
            syms = [lookup(r.uuid(sy)) for mi in r.mods for sy in mi["symbols"]]
            if syms:
                sy = syms[e % len(syms)]
                if sy.referent is not None or sy.value is None:
                    sy.value = 0
                else:
                    sy.value = None
        elif kind == 5:
            secs = [lookup(r.uuid(s_)) for mi in r.mods for s_ in mi["spec"]["sections"]]
            if secs:
                s_ = secs[e % len(secs)]
                s_.name = s_.name + "'"
                if g.Section.Flag.Writable in s_.flags:
                    s_.flags.discard(g.Section.Flag.Writable)
                else:
                    s_.flags.add(g.Section.Flag.Writable)
        elif kind == 6:
            blks = [lookup(r.uuid(b)) for mi in r.mods for b in mi["blocks"]]
            if blks:
                b = blks[e % len(blks)]
                b.offset = (b.offset + 1) % (1 << 64)
                b.size = (b.size + 2) % (1 << 64)
                if isinstance(b, g.CodeBlock):
                    b.decode_mode = g.CodeBlock.DecodeMode.Thumb if b.decode_mode == g.CodeBlock.DecodeMode.Default else g.CodeBlock.DecodeMode.Default
        elif kind == 7:
            nodes = list(ir_fresh.cfg_nodes)
            if nodes:
                a, b = nodes[e % len(nodes)], nodes[(e // 3) % len(nodes)]
                edge = g.Edge(a, b, g.Edge.Label(g.Edge.Type.Syscall, bool(e % 2), bool(e % 3)))
                if edge in ir_fresh.cfg:
                    ir_fresh.cfg.discard(edge)
                else:
                    ir_fresh.cfg.add(edge)
                if len(ir_fresh.cfg) and e % 4 == 0:
                    ir_fresh.cfg.discard(next(iter(ir_fresh.cfg)))
        elif kind == 8:
            bis = [(mi, lookup(r.uuid(bi))) for mi in r.mods for bi in mi["intervals"] if mi["symbols"]]
            if bis:
                mi, bi = bis[e % len(bis)]
                sym = lookup(r.uuid(mi["symbols"][e % len(mi["symbols"])]))
                off = e % 7
                if off in bi.symbolic_expressions and e % 2:
                    del bi.symbolic_expressions[off]
                else:
                    bi.symbolic_expressions[off] = g.SymAddrConst(e - 20, sym, {g.SymbolicExpression.Attribute.PLT} if e % 3 else set())
                bi.size = min(max(bi.size, len(bi.contents)) + 1, (1 << 64) - 1)
        elif kind == 4 and r.mods:
            mi = r.mods[e % len(r.mods)]
            m = lookup(r.uuid(mi["spec"]))
            target = [lookup(r.uuid(b)) for b in mi["blocks"] + mi["proxies"]]
            import uuid as _uuid

            g.Symbol("added", uuid=_uuid.UUID(int=(0xADD << 100) | (n_edit << 16) | e), payload=target[e % len(target)] if target else 7, module=m)
    snap_c = snapshot.snapshot(g, ir_fresh)
    try:
        ir4 = g.IR.load_protobuf_file(io.BytesIO(save(ir_fresh)))
    except Exception as ex:  # noqa
        res.fail(pbt.exception_bucket("C01:edited-loaded-ir-roundtrip", ex), repr(ex))
        return
    d = snapshot.diff(snap_c, snapshot.snapshot(g, ir4))
    if d:
        res.fail("C01:edited-loaded-ir-roundtrip-differs", d)
    for hs, holder in [(r.spec["ir"], ir4)] + [(mi["spec"], ir4.get_by_uuid(r.uuid(mi["spec"]))) for mi in r.mods]:
        for a in hs["aux"]:
            if (id(hs), a["key"]) in expected_aux and holder is not None:
                tree, new = expected_aux[(id(hs), a["key"])]
                want = auxref.expected_python(tree, new, g, ir4.get_by_uuid)
                msg = auxref.same(tree, want, holder.aux_data[a["key"]].data, g)
                if msg:
                    res.fail("C01:assigned-auxdata-not-written", "%r %s: %s" % (a["key"], tngrammar.to_string(tree), msg))


def strategy():
    from hypothesis import strategies as st

    return st.fixed_dictionaries({"spec": specmod.specs(), "edits": st.one_of(st.just([]), st.lists(st.integers(0, 90), min_size=1, max_size=5)),
                                  "edit_target": st.integers(0, 1),
                                  "foreign": st.one_of(st.none(), st.none(), st.integers(0, 17))})


def run_job(job):
    return pbt.run_hypothesis(strategy(), run_case, prefix=ID, n_examples=job["n"], seed=job["seed"],
                              max_shrink_evals=job.get("shrink", 400))


def replay(doc):
    return run_case(doc["case"])


def jobs(tier, seed):
    n, shards = (4000, 8) if tier == "quick" else (180000, 16)
    out = []
    for k in range(shards):
        job = {"name": "irs-%d" % k, "kind": "irs", "n": n // shards, "seed": seed * 1000 + k,
               "shrink": 400 if tier == "quick" else 2000}
        if k % 2 == 1:
            job["env"] = {"PROTOCOL_BUFFERS_PYTHON_IMPLEMENTATION": "python"}
            job["n"] = max(50, job["n"] // 2)
        out.append(job)
    return out
