"""C17: the loader either rejects a file or returns a coherent IR.

Seed files are saves of generated IR specs.  Per seed file the check
enumerates: every truncation point, every single-bit flip, generated
single-byte replacements at every position, every header variation, and every
single structural fault at message level (dangling / ill-typed reference of
each kind, every ordered pair of node positions sharing one UUID, unknown enum
numbers in every enum field, UUIDs of length 0/15/17 in every UUID field,
blocks / expressions without payload, contents longer than size); plus random
byte strings and splices.  Each resulting file must raise an exception or
return an IR that passes vlib.coherence; header / version faults must raise
ValueError; every unmodified seed file must load.
"""

import io
import uuid as uuidmod

from vlib import coherence, irbuild, pbt, refmsg, snapshot, spec as specmod

ID = "C17"
LEVEL = "fault_enumeration"
RULE = (
    "cases: (seed file = save of a Hypothesis-generated G-IR spec, fault family); inside a case the family is enumerated "
    "exhaustively for that file: trunc = every cut point; flip = every bit of every byte; byte = 3 generated replacement "
    "values at every position; header = every other value of each of bytes 0-4, bytes 5-6, byte 7 in 0..255, short "
    "headers, message version field; struct = every reference slot x {missing, each wrong kind}, every ordered pair of "
    "UUID-bearing positions made equal, every enum field x unknown numbers, every UUID field x lengths 0/15/17, every "
    "block / expression without payload, contents longer than size; random = random bytes and splices behind a valid "
    "header; a faulted file is non-trivial when it was accepted (the coherence checker ran) or rejected by gtirb code "
    "rather than by the protobuf parser; they are distinct by construction within a seed file, seed files are de-duplicated "
    "by SHA-1 of canonical JSON"
)
ASSUMPTIONS = [
    "any exception is an acceptable rejection except for magic / version-byte / version-field faults, where ValueError is demanded",
    "'never hangs' is checked with a per-file 20 s hang breaker, not proved",
    "AuxData bytes are not decoded by the loader (lazy), so corrupted table bytes are outside a returned IR's structural guarantees",
]
REQUIRED_TAGS = {
    "quick": ["mode:trunc", "mode:flip", "mode:byte", "mode:header", "mode:struct", "mode:random", "accepted", "rejected:gtirb", "struct:dup-uuid", "struct:dup-uuid-thrice", "struct:enum", "struct:uuid-length", "scale:modules", "scale:edges"],
    "thorough": ["mode:trunc", "mode:flip", "mode:byte", "mode:header", "mode:struct", "mode:random", "accepted", "rejected:gtirb", "struct:dup-uuid", "struct:dup-uuid-thrice", "struct:enum", "struct:uuid-length", "scale:modules", "scale:edges"],
}
MODES = ["trunc", "flip", "byte", "header", "struct", "random"]


def _gt():
    import gtirb

    return gtirb


def header():
    return b"GTIRB\x00\x00" + bytes([refmsg.proto_version()])


class Judge:
    def __init__(self, g, res):
        self.g = g
        self.res = res
        self.n = 0
        self.nontrivial = 0
        self.samples = []
        self.reload = True  # also load the re-saved file back and compare (skipped in the per-bit families)
        self.counts = res.counts

    def note(self, what, data, outcome):
        # a few judged inputs for the evidence file
        if len(self.samples) < 3 and (self.n % 37 == 5 or not self.samples):
            self.samples.append({"fault": what, "file_hex": data[:48].hex() + ("..." if len(data) > 48 else ""), "bytes": len(data), "outcome": outcome})

    def count(self, key):
        self.counts[key] = self.counts.get(key, 0) + 1

    def judge(self, data, what, expect=None, must_load=False):
        g = self.g
        self.n += 1
        # the hang breaker is per *file*: re-arm it for every judged input
        import signal

        signal.setitimer(signal.ITIMER_REAL, pbt.CASE_LIMIT_S)
        try:
            ir = g.IR.load_protobuf_file(io.BytesIO(data))
        except pbt.CaseTimeout:
            raise
        except Exception as e:  # noqa
            mod = type(e).__module__ or ""
            if mod.startswith("google.protobuf"):
                self.count("rejected:protobuf")
            else:
                self.count("rejected:gtirb")
                self.nontrivial += 1
                self.note(what, data, "rejected: %s" % type(e).__name__)
            if expect == "ValueError" and not isinstance(e, ValueError):
                self.res.fail("C17:%s-not-ValueError:%s" % (what.split(" ")[0], type(e).__name__), "%s: %r" % (what, e))
            if must_load:
                self.res.fail(pbt.exception_bucket("C17:valid-file-rejected", e), "%s: %r" % (what, e))
            return None
        self.count("accepted")
        self.nontrivial += 1
        self.note(what, data, "accepted")
        if expect == "ValueError":
            self.res.fail("C17:%s-accepted" % what.split(" ")[0], what)
            return ir
        probes = ()
        want = None
        try:
            from gtirb.proto import IR_pb2

            msg = IR_pb2.IR()
            msg.ParseFromString(data[8:])
            probes = coherence.uuids_in_message(msg)
            want = refmsg.expected_snapshot(msg, aux_values=False)
            if want["duplicate_uuids"]:
                want = None  # the loader merges equal UUIDs of one kind: no unique expectation
        except Exception:  # noqa
            want = None
        if want is not None:
            # fully linked: what was returned is what the (parsable) file says
            try:
                d = snapshot.diff(want, snapshot.snapshot(g, ir, aux_values=False))
            except pbt.CaseTimeout:
                raise
            except Exception as e:  # noqa
                d = "snapshot raised %r" % (e,)
            if d:
                self.res.fail("C17:accepted-ir-differs-from-file", "%s: %s" % (what, d))
        try:
            problems = coherence.check(g, ir, probes, reload=self.reload)
        except pbt.CaseTimeout:
            raise
        except Exception as e:  # noqa
            problems = [(pbt.exception_bucket("checker", e).split(":", 1)[1], repr(e))]
        for bucket, detail in problems[:3]:
            self.res.fail("C17:incoherent:" + bucket, "%s: %s" % (what, detail))
        return ir


# ---------------------------------------------------------------- structural faults


def uuid_fields(msg):
    """(owner message, field name, description) of every UUID-typed field that
    identifies a node (not references)"""
    out = [(msg, "uuid", "IR")]
    for pm in msg.modules:
        out.append((pm, "uuid", "Module"))
        for p in pm.proxies:
            out.append((p, "uuid", "ProxyBlock"))
        for ps in pm.sections:
            out.append((ps, "uuid", "Section"))
            for pi in ps.byte_intervals:
                out.append((pi, "uuid", "ByteInterval"))
                for pb in pi.blocks:
                    which = pb.WhichOneof("value")
                    if which:
                        out.append((getattr(pb, which), "uuid", "CodeBlock" if which == "code" else "DataBlock"))
        for sy in pm.symbols:
            out.append((sy, "uuid", "Symbol"))
    return out


def struct_faults(msg0, J):
    """enumerate every single structural fault of message msg0"""
    from gtirb.proto import IR_pb2
    from checks import c09_refs

    def fresh():
        m = IR_pb2.IR()
        m.CopyFrom(msg0)
        return m

    def emit(m, what):
        J.judge(header() + m.SerializeToString(), what)

    n_nodes = len(uuid_fields(msg0))
    # 1. every ordered pair of node positions sharing one UUID
    for i in range(n_nodes):
        for j in range(n_nodes):
            if i == j:
                continue
            m = fresh()
            f = uuid_fields(m)
            setattr(f[j][0], f[j][1], getattr(f[i][0], f[i][1]))
            J.count("struct:dup-uuid")
            emit(m, "dup-uuid %s#%d <- %s#%d" % (f[j][2], j, f[i][2], i))
    # 1b. three node positions of one kind sharing one UUID: the second
    # duplicate meets whatever the first one left behind (at most 120 per file)
    import itertools

    by_kind = {}
    for idx, (_o, _f, desc) in enumerate(uuid_fields(msg0)):
        by_kind.setdefault(desc, []).append(idx)
    emitted = 0
    for desc, idxs in sorted(by_kind.items()):
        for i, j, k in itertools.combinations(idxs, 3):
            for src in (i, k):
                if emitted >= 120:
                    break
                m = fresh()
                f = uuid_fields(m)
                for dst in (i, j, k):
                    if dst != src:
                        setattr(f[dst][0], f[dst][1], getattr(f[src][0], f[src][1]))
                J.count("struct:dup-uuid-thrice")
                emitted += 1
                emit(m, "dup-uuid thrice %s#%d,#%d,#%d <- #%d" % (desc, i, j, k, src))
    # 2. UUID fields of wrong length (node ids and references)
    n_slots = len(c09_refs.slots(msg0))
    for i in range(n_nodes + n_slots):
        for length in (0, 15, 17):
            m = fresh()
            f = uuid_fields(m) + [(o, fld, "ref:" + k) for k, o, fld in c09_refs.slots(m)]
            owner, fld, desc = f[i]
            cur = getattr(owner, fld)
            new = (cur + b"\x00")[:length] if length else b""
            if desc == "ref:entry" and length == 0:
                continue  # an empty entry point means "none"
            setattr(owner, fld, new)
            J.count("struct:uuid-length")
            emit(m, "uuid-length %s len=%d" % (desc, length))
    # 3. dangling / ill-typed references
    kinds = {}
    for owner, fld, desc in uuid_fields(msg0):
        kinds.setdefault(desc, []).append(getattr(owner, fld))
    for i in range(n_slots):
        kind = c09_refs.slots(msg0)[i][0]
        repls = [("missing", uuidmod.UUID(int=0xBAD0 + i).bytes)]
        for k, us in kinds.items():
            if k not in c09_refs.ALLOWED[kind]:
                repls.append((k, us[i % len(us)]))
        for name, new in repls:
            m = fresh()
            _, owner, fld = c09_refs.slots(m)[i]
            setattr(owner, fld, new)
            J.count("struct:reference")
            emit(m, "reference %s -> %s" % (kind, name))
    # 4. unknown enum numbers
    def enum_sites(m):
        sites = []
        for pm in m.modules:
            sites += [(pm, "isa"), (pm, "file_format"), (pm, "byte_order")]
            for ps in pm.sections:
                for k in range(len(ps.section_flags)):
                    sites.append((ps, ("section_flags", k)))
                for pi in ps.byte_intervals:
                    for pb in pi.blocks:
                        if pb.WhichOneof("value") == "code":
                            sites.append((pb.code, "decode_mode"))
        for e in m.cfg.edges:
            if e.HasField("label"):
                sites.append((e.label, "type"))
        return sites

    for i in range(len(enum_sites(msg0))):
        for val in (99, 2**31 - 1, -1):
            m = fresh()
            owner, fld = enum_sites(m)[i]
            if isinstance(fld, tuple):
                getattr(owner, fld[0])[fld[1]] = val
            else:
                setattr(owner, fld, val)
            J.count("struct:enum")
            emit(m, "enum %s=%d" % (fld if isinstance(fld, str) else fld[0], val))
    # 5. blocks / expressions without payload, contents longer than size
    def blocks(m):
        return [pb for pm in m.modules for ps in pm.sections for pi in ps.byte_intervals for pb in pi.blocks]

    for i in range(len(blocks(msg0))):
        m = fresh()
        blocks(m)[i].ClearField(blocks(m)[i].WhichOneof("value"))
        J.count("struct:no-payload")
        emit(m, "block-without-payload")

    def exprs(m):
        return [pi.symbolic_expressions[k] for pm in m.modules for ps in pm.sections for pi in ps.byte_intervals for k in sorted(pi.symbolic_expressions)]

    for i in range(len(exprs(msg0))):
        m = fresh()
        e = exprs(m)[i]
        e.ClearField(e.WhichOneof("value"))
        J.count("struct:no-payload")
        emit(m, "expression-without-payload")

    def ivs(m):
        return [pi for pm in m.modules for ps in pm.sections for pi in ps.byte_intervals]

    for i in range(len(ivs(msg0))):
        m = fresh()
        pi = ivs(m)[i]
        pi.contents = pi.contents + b"\x01" * (pi.size - len(pi.contents) + 1) if pi.size < 1 << 20 else pi.contents
        if len(pi.contents) > pi.size:
            J.count("struct:contents-too-long")
            emit(m, "contents-longer-than-size")


def run_case(case):
    g = _gt()
    from gtirb.proto import IR_pb2

    res = pbt.CaseResult()
    spec = case["spec"]
    r = specmod.validate(spec)
    try:
        B = irbuild.build(g, spec, r, use_how=False)
        buf = io.BytesIO()
        B.ir.save_protobuf_file(buf)
        data = buf.getvalue()
    except pbt.CaseTimeout:
        raise
    except Exception as e:
        res.fail(pbt.exception_bucket("C17:build-or-save", e), repr(e))
        return res
    mode = MODES[case.get("mode", 0) % len(MODES)]
    res.tag("mode:" + mode)
    J = Judge(g, res)
    J.judge(data, "unmodified seed file", must_load=True)
    J.reload = mode not in ("flip", "byte")
    n = len(data)
    if mode == "trunc":
        for cut in range(n):
            J.judge(data[:cut], "trunc at %d of %d" % (cut, n), expect="ValueError" if cut < 8 else None)
    elif mode == "flip":
        for pos in range(n):
            for bit in range(8):
                mutated = data[:pos] + bytes([data[pos] ^ (1 << bit)]) + data[pos + 1 :]
                J.judge(mutated, "flip byte %d bit %d" % (pos, bit), expect="ValueError" if pos < 5 or pos == 7 else None)
    elif mode == "byte":
        vals = [v % 256 for v in case.get("vals", [0, 255, 128])][:3]
        for pos in range(n):
            for v in vals:
                if v == data[pos]:
                    continue
                mutated = data[:pos] + bytes([v]) + data[pos + 1 :]
                J.judge(mutated, "byte %d <- %d" % (pos, v), expect="ValueError" if pos < 5 or pos == 7 else None)
    elif mode == "header":
        for pos in range(5):
            for v in range(256):
                if v != data[pos]:
                    J.judge(data[:pos] + bytes([v]) + data[pos + 1 :], "magic byte %d <- %d" % (pos, v), expect="ValueError")
        for v in range(256):
            if v != data[7]:
                J.judge(data[:7] + bytes([v]) + data[8:], "version byte <- %d" % v, expect="ValueError")
        for v in (1, 255):
            # reserved bytes: ignored by this loader or rejected, never incoherent
            J.judge(data[:5] + bytes([v]) + data[6:], "reserved byte 5 <- %d" % v)
            J.judge(data[:6] + bytes([v]) + data[7:], "reserved byte 6 <- %d" % v)
        for k in range(8):
            J.judge(data[:k], "short header of %d bytes" % k, expect="ValueError")
        msg = IR_pb2.IR()
        msg.ParseFromString(data[8:])
        for v in [0, 1, 2, 3, 5, 255, 256, 2**32 - 1] + [x % 2**32 for x in case.get("vals", [])]:
            if v == refmsg.proto_version():
                continue
            msg.version = v
            J.judge(header() + msg.SerializeToString(), "version field <- %d" % v, expect="ValueError")
    elif mode == "struct":
        msg = IR_pb2.IR()
        msg.ParseFromString(data[8:])
        struct_faults(msg, J)
    else:
        blobs = case.get("blobs", [])
        for i, b in enumerate(blobs[:8]):
            raw = bytes(x % 256 for x in b)
            J.judge(header() + raw, "random bytes #%d behind a valid header" % i)
            J.judge(raw, "random bytes #%d" % i, expect="ValueError" if raw[:5] != b"GTIRB" or len(raw) < 8 or raw[7] != refmsg.proto_version() else None)
            cut = (len(raw) * 7 + i) % (n - 8 + 1)
            J.judge(data[: 8 + cut] + raw, "seed prefix %d + random tail #%d" % (cut, i))
            J.judge(data[:8] + data[8 + cut :], "seed with %d bytes removed after the header" % cut)
            J.judge(data + data[8:], "seed message twice")
    res.evals = J.n
    res.sub_nontrivial = J.nontrivial
    res.sample = {"seed_file_bytes": n, "family": mode, "judged": J.n, "examples": J.samples}
    res.nontrivial = False
    return res


def prune(spec):
    """keep a seed file small (a few hundred bytes): at most 2 sections, 2
    intervals per section, 2 blocks and 2 expressions per interval, 3 symbols,
    2 proxies, 3 edges - every kind of node and reference survives"""
    for m in spec["modules"]:
        m["sections"] = m["sections"][:2]
        m["symbols"] = m["symbols"][:3]
        m["proxies"] = m["proxies"][:2]
        for s_ in m["sections"]:
            s_["intervals"] = s_["intervals"][:2]
            for bi in s_["intervals"]:
                bi["blocks"] = bi["blocks"][:2]
                bi["exprs"] = bi["exprs"][:2]
    spec["edges"] = spec["edges"][:3]
    return spec


def strategy():
    from hypothesis import strategies as st

    small_specs = specmod.specs(max_modules=1, aux=False)
    any_specs = st.one_of(specmod.specs(max_modules=2, aux=False), specmod.specs(max_modules=2, max_aux_depth=1))

    @st.composite
    def case(draw):
        mode = draw(st.sampled_from([0, 1, 2, 3, 4, 4, 4, 5]))  # structural faults weighted up
        # the per-byte families cost 3-8 loads per byte of the file: small files
        spec = draw(small_specs if MODES[mode] in ("flip", "byte") else any_specs)
        if MODES[mode] in ("flip", "byte"):
            spec = prune(spec)
        return {
            "spec": spec,
            "mode": mode,
            "vals": draw(st.lists(st.integers(0, 2**32 - 1), min_size=3, max_size=3)),
            "blobs": draw(st.lists(st.lists(st.integers(0, 255), max_size=40), max_size=4)),
        }

    return case()


def run_fuzz_job(job):
    """thorough tier only: atheris/libFuzzer campaign in a child process"""
    import json
    import os
    import shutil
    import subprocess
    import sys

    from vlib import build

    g = _gt()
    out = pbt.new_job_result()
    workdir = os.path.join(build.BUILD_ROOT, "fuzz", "c17-%d-%d" % (os.getpid(), job["seed"]))
    shutil.rmtree(workdir, ignore_errors=True)
    os.makedirs(os.path.join(workdir, "corpus"))
    # seed corpus: saves of generated specs (half of the shards start empty)
    seeds = []

    def collect(case):
        res = pbt.CaseResult()
        try:
            r = specmod.validate(case["spec"])
            B = irbuild.build(g, case["spec"], r, use_how=False)
            buf = io.BytesIO()
            B.ir.save_protobuf_file(buf)
            seeds.append(buf.getvalue())
        except Exception:  # noqa
            pass
        return res

    if job.get("corpus", True):
        pbt.run_hypothesis(strategy(), collect, prefix=ID, n_examples=40, seed=job["seed"], max_shrink_evals=0)
        for i, data in enumerate(seeds):
            with open(os.path.join(workdir, "corpus", "seed%03d" % i), "wb") as f:
                f.write(data)
    env = dict(os.environ)
    p = subprocess.run(
        [sys.executable, "-m", "vlib.fuzz_c17", workdir, str(job["runs"]), str(job["seed"])],
        cwd=build.VERIF_ROOT, env=env, capture_output=True, text=True, timeout=job.get("timeout", 3600),
    )
    stats = {}
    try:
        with open(os.path.join(workdir, "stats.json")) as f:
            stats = json.load(f)
    except Exception:  # noqa
        out["errors"].append("fuzz campaign left no stats (exit %s): %s" % (p.returncode, (p.stdout + p.stderr)[-1500:]))
        return out
    out["evaluations"] = stats.get("execs", 0)
    out["nontrivial_count"] = stats.get("accepted", 0) + stats.get("rejected:gtirb", 0)
    out["counters"] = {"fuzz:execs": stats.get("execs", 0), "fuzz:accepted": stats.get("accepted", 0),
                       "fuzz:rejected:gtirb": stats.get("rejected:gtirb", 0), "fuzz:rejected:protobuf": stats.get("rejected:protobuf", 0),
                       "fuzz:seed-corpus-files": len(seeds)}
    fails = {}
    try:
        with open(os.path.join(workdir, "failures.jsonl")) as f:
            for line in f:
                d = json.loads(line)
                cur = fails.get(d["bucket"])
                if cur is None or len(d["hex"]) < len(cur["hex"]):
                    fails[d["bucket"]] = d
    except OSError:
        pass
    for bucket, d in sorted(fails.items()):
        out["failures"].append({"bucket": "fuzz:" + bucket, "case": {"raw": d["hex"]}, "detail": d["detail"], "hits": 1})
    shutil.rmtree(workdir, ignore_errors=True)
    return out


def run_raw(case):
    """replay of a fuzz finding: one raw file"""
    g = _gt()
    res = pbt.CaseResult()
    data = bytes.fromhex(case["raw"])
    expect = "ValueError" if data[:5] != b"GTIRB" or len(data) < 8 or data[7] != refmsg.proto_version() else None
    Judge(g, res).judge(data, "fuzz input", expect=expect)
    res.failures = [("fuzz:" + b, d) for b, d in res.failures]
    return res


SCALE = [("modules", 12000), ("symbols", 30000), ("blocks", 30000), ("edges", 20000)]


def run_scale_case(case):
    """'never hangs' at scale: a valid file with very many siblings of one
    repeated field loads within the per-case limit (a loader that is quadratic
    in a repeated field needs minutes here) and holds them all"""
    import uuid as uuidmod

    from gtirb.proto import IR_pb2

    g = _gt()
    res = pbt.CaseResult()
    what, n = case["scale"], case["n"]
    U = lambda i: uuidmod.UUID(int=(0x5CA1E << 96) | i).bytes  # noqa
    msg = IR_pb2.IR()
    msg.uuid = U(0)
    msg.version = refmsg.proto_version()
    if what == "modules":
        for i in range(n):
            m = msg.modules.add()
            m.uuid = U(1 + i)
            m.name = "m%d" % i
    else:
        m = msg.modules.add()
        m.uuid = U(1)
        if what == "symbols":
            for i in range(n):
                sy = m.symbols.add()
                sy.uuid = U(2 + i)
                sy.name = "s%d" % (i % 7)
                sy.value = i
        elif what == "blocks":
            sec = m.sections.add()
            sec.uuid = U(2)
            bi = sec.byte_intervals.add()
            bi.uuid = U(3)
            bi.size = n
            bi.has_address = True
            for i in range(n):
                b = bi.blocks.add()
                b.offset = i
                b.data.uuid = U(4 + i)
                b.data.size = 1
        else:
            for i in range(n + 1):
                m.proxies.add().uuid = U(2 + i)
            for i in range(n):
                e = msg.cfg.edges.add()
                e.source_uuid = U(2 + i)
                e.target_uuid = U(3 + i)
    data = header() + msg.SerializeToString()
    res.tag("scale:" + what)
    res.nontrivial = True
    ir = g.IR.load_protobuf_file(io.BytesIO(data))  # the case limit (SIGALRM) turns a stall into C17:hang
    got = {"modules": lambda: len(ir.modules), "symbols": lambda: sum(1 for _ in ir.symbols),
           "blocks": lambda: sum(1 for _ in ir.byte_blocks), "edges": lambda: len(ir.cfg)}[what]()
    if got != n:
        res.fail("C17:scale-file-lost-nodes", "%d %s in the file, %d in the IR" % (n, what, got))
    res.sample = {"fault": "none (scale)", "file_hex": data[:48].hex() + "...", "bytes": len(data), "outcome": "accepted, %d %s" % (got, what)}
    return res


def run_job(job):
    if job.get("kind") == "fuzz":
        return run_fuzz_job(job)
    if job.get("kind") == "scale":
        from hypothesis import strategies as st

        return pbt.run_hypothesis(st.sampled_from([{"scale": w, "n": n} for w, n in SCALE]), run_scale_case, prefix=ID,
                                  n_examples=len(SCALE), seed=job["seed"], max_shrink_evals=0)
    return pbt.run_hypothesis(strategy(), run_case, prefix=ID, n_examples=job["n"], seed=job["seed"],
                              max_shrink_evals=job.get("shrink", 60))


def replay(doc):
    if "raw" in doc["case"]:
        return run_raw(doc["case"])
    if "scale" in doc["case"]:
        return run_scale_case(doc["case"])
    return run_case(doc["case"])


def jobs(tier, seed):
    n, shards = (72, 8) if tier == "quick" else (6400, 16)
    out = [{"name": "seeds-%d" % k, "kind": "seeds", "n": n // shards, "seed": seed * 1000 + 170 + k,
            "shrink": 12 if tier == "quick" else 80} for k in range(shards)]
    out.append({"name": "scale", "kind": "scale", "seed": seed})
    if tier == "thorough":
        # coverage-guided campaign: 8 processes, half of them from an empty corpus
        for k in range(8):
            out.append({"name": "fuzz-%d" % k, "kind": "fuzz", "runs": 300000, "seed": seed * 1000 + 700 + k,
                        "corpus": k % 2 == 0, "timeout": 5400})
    return out
