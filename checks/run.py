"""`python -m checks.run <ID> --tier quick|thorough [--replay path]`."""

import argparse
import os
import sys

MODULES = {
    "C01": "checks.c01_roundtrip",
    "C02": "checks.c02_schema",
    "C03": "checks.c03_uuid",
    "C04": "checks.c04_forest",
    "C05": "checks.c05_blocks",
    "C06": "checks.c06_intervals",
    "C07": "checks.c07_auxrt",
    "C08": "checks.c08_wire",
    "C09": "checks.c09_refs",
    "C10": "checks.c10_symbols",
    "C11": "checks.c11_cfg",
    "C12": "checks.c12_lazy",
    "C13": "checks.c13_symexpr",
    "C14": "checks.c14_tables",
    "C15": "checks.c15_typenames",
    "C16": "checks.c16_collections",
    "C17": "checks.c17_loader",
    "C18": "checks.c18_deepeq",
    "C19": "checks.c19_bytes",
}


def main():
    ap = argparse.ArgumentParser()
    ap.add_argument("prop")
    ap.add_argument("--tier", default=None, choices=["quick", "thorough"])
    ap.add_argument("--replay", default=None)
    args = ap.parse_args()
    tier = args.tier or os.environ.get("VERIF_TIER") or "quick"
    if tier not in ("quick", "thorough"):
        tier = "quick"
    os.chdir(os.path.dirname(os.path.dirname(os.path.abspath(__file__))))
    sys.path.insert(0, os.getcwd())
    from vlib import runner

    if args.prop not in MODULES:
        print("HARNESS-ERROR: unknown property %s" % args.prop)
        return 2
    return runner.main(MODULES[args.prop], tier, replay=args.replay)


if __name__ == "__main__":
    sys.exit(main())
