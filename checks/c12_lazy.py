"""C12: deferred index maintenance is unobservable.

Metamorphic oracle over *lookup schedules*: one edit program E is replayed on a
fresh structure under k schedules (no lookup before the end; a lookup burst
after every step; generated placements with bursts) and a fixed battery of
C05 / C06 / C13 lookups plus Section.address/size is evaluated at the end.  The
final answers must be identical under every schedule, and equal to the linear
scan (vlib.scan); the intermediate lookups are compared with the scan too.
"""

from vlib import pbt, scan, scangen

ID = "C12"
LEVEL = "exploration"
RULE = (
    "cases: (edit program E of <= 30 ops as in C05/C06/C13, 2-4 lookup schedules = sets of positions of E after which a "
    "burst of lookups touching every index is issued; always including the empty schedule and the every-step schedule) "
    "plus a final battery of generated and model-anchored queries; the harness mirrors the number of pending index "
    "events per lookup to classify which LazyIntervalTree regime (first use, fewer / as many / more pending events than "
    "members) each lookup exercised; non-trivial = the schedules of the case together exercised the incremental "
    "(pending < size) and the rebuild (pending >= size) regime; distinct = SHA-1 of canonical JSON"
)
ASSUMPTIONS = [
    "the regime classification mirrors lazyintervaltree.py's event counting for evidence only; the verdict never depends on it",
]
REQUIRED_TAGS = {
    "quick": ["regime:pending<size", "regime:pending=size", "regime:pending>size", "regime:first-use", "schedules>=3"],
    "thorough": ["regime:pending<size", "regime:pending=size", "regime:pending>size", "regime:first-use", "schedules>=3"],
}
FAMS = ("blocks", "intervals", "sections", "extent", "symexpr")


def _gt():
    import gtirb

    return gtirb


def burst(w, where):
    """lookups that make every index of the world current and sweep its
    whole span (so a stale, missing or doubled entry is seen at once)"""
    pts = w.boundary_points()
    lo, hi = (pts[0], pts[-1] + 1) if pts else (0, 1)
    p = pts[len(pts) // 2] if pts else 0
    for fam in ("blocks", "intervals", "sections", "symexpr"):
        for q in (p, [lo, hi, 1]):
            try:
                w.query({"fam": fam, "scope": "ir", "i": 0, "q": q}, where)
            except scan.Skip:
                pass
    for k in range(len(w.bis)):
        w.query({"fam": "blocks", "scope": "bi", "i": k, "q": [lo, hi, 1]}, where)
    for k in range(len(w.secs)):
        w.query({"fam": "intervals", "scope": "sec", "i": k, "q": [lo, hi, 1]}, where)
    w.query({"fam": "extent", "scope": "ir", "q": 0}, where)


def run_case(case):
    g = _gt()
    res = pbt.CaseResult()
    edits = case["edits"]
    n = len(edits)
    schedules = [[], list(range(n))] + [sorted(set(p % max(1, n) for p in s)) for s in case.get("schedules", [])]
    finals = []
    regimes = set()
    for si, sched in enumerate(schedules):
        w = scan.World(g, case.get("layout", {}))
        sset = set(sched)
        try:
            for i, op in enumerate(edits):
                w.apply(op)
                if i in sset:
                    burst(w, "schedule %d, after edit %d" % (si, i))
                if w.fail:
                    break
            if not w.fail:
                finals.append(w.answers(case.get("final", [])) + [w.answers(_final_fixed(w))])
                burst(w, "schedule %d, final sweep" % si)
                if si == 0:
                    w.full_battery("schedule %d, final battery" % si, max_points=12)
        except pbt.CaseTimeout:
            raise
        except Exception as e:  # noqa
            w.failf(pbt.exception_bucket("lazy:schedule", e), "schedule %r: %r" % (sched, e))
        regimes |= w.regimes
        for b, d in w.fail:
            res.fail("C12:" + b, d)
        if w.fail:
            break
    if not res.failures:
        for si in range(1, len(finals)):
            if finals[si] != finals[0]:
                diff = [k for k, (a, b) in enumerate(zip(finals[0], finals[si])) if a != b]
                res.fail(
                    "C12:lazy:answers-depend-on-schedule",
                    "schedule %r vs no-lookup schedule: final answer %r differs: %r vs %r"
                    % (schedules[si], diff[:3], finals[si][diff[0]] if diff else None, finals[0][diff[0]] if diff else None),
                )
                break
    for r in regimes:
        res.tag("regime:" + r)
    if len(schedules) >= 3:
        res.tag("schedules>=3")
    res.nontrivial = "pending<size" in regimes and ("pending=size" in regimes or "pending>size" in regimes)
    return res


def _final_fixed(w):
    pts = w.boundary_points()[:12]
    qs = []
    for p in pts:
        qs.append({"fam": "blocks", "scope": "ir", "i": 0, "q": p})
        qs.append({"fam": "intervals", "scope": "ir", "i": 0, "q": p})
        qs.append({"fam": "sections", "scope": "ir", "i": 0, "q": p})
        qs.append({"fam": "symexpr", "scope": "ir", "i": 0, "q": p})
        for k in range(len(w.bis)):
            qs.append({"fam": "blocks", "scope": "bi", "i": k, "q": p})
    qs.append({"fam": "extent", "scope": "ir", "q": 0})
    return qs


def strategy():
    from hypothesis import strategies as st
    from vlib import progs

    ops = scangen.edit_ops(symexpr=True)

    @st.composite
    def case(draw):
        lay = draw(scangen.layout(exprs=True))
        edits = draw(progs.programs(ops, max_len=30))
        n = len(edits)
        pos = st.integers(0, max(0, n - 1))
        # placements with bursts: runs of consecutive positions and isolated ones
        sched = st.one_of(
            st.lists(pos, max_size=4),
            st.tuples(pos, st.integers(1, 6)).map(lambda t: list(range(t[0], t[0] + t[1]))),
            st.tuples(pos, st.integers(2, 9)).map(lambda t: list(range(t[0] % t[1], n, t[1]))),
        )
        scheds = draw(st.lists(sched, min_size=0, max_size=2))
        final = draw(st.lists(scangen.query_spec(list(FAMS)), max_size=6))
        return {"layout": lay, "edits": edits, "schedules": scheds, "final": final}

    return case()


def run_job(job):
    return pbt.run_hypothesis(strategy(), run_case, prefix=ID, n_examples=job["n"], seed=job["seed"],
                              max_shrink_evals=job.get("shrink", 100))


def replay(doc):
    return run_case(doc["case"])


def jobs(tier, seed):
    n, shards = (2000, 8) if tier == "quick" else (80000, 16)
    return [{"name": "sched-%d" % k, "kind": "sched", "n": n // shards, "seed": seed * 1000 + 900 + k,
             "shrink": 100 if tier == "quick" else 1000} for k in range(shards)]
