"""C13: symbolic-expression lookup by address equals a fresh scan.

Engine vlib.scan with mapping ops on ByteInterval.symbolic_expressions.
Interval scope: symbolic_expressions_at / _at_offset must return exactly the
list [(interval, offset, expression)] for the stored offsets, in increasing
offset order, whose address (resp. offset) is a member of the query (incl. its
step); nothing for an interval without address.  Section / module / IR scope:
the union over the contained intervals, where expressions stored beyond their
interval's declared extent may be omitted; per interval in increasing order.
"""

from vlib import pbt, scangen
from checks import c05_blocks

ID = "C13"
FAMS = ["symexpr"]
LEVEL = "exploration"
RULE = (
    "cases: edit programs (<= 30 ops) over 4 intervals in 3 sections / 2 modules with mapping ops on "
    "symbolic_expressions (item set / del, pop, popitem, setdefault, update from mapping or pairs, clear, whole-mapping "
    "assignment from a dict, another interval's mapping or the interval's own mapping), interval address changes (incl. "
    "None) and size changes, interval / section / module moves, save+load; point and stepped-range queries interleaved "
    "and in a final battery over all expression addresses and interval edges; non-trivial = a lookup with a non-empty "
    "answer follows an edit that followed an earlier lookup; distinct = SHA-1 of canonical JSON"
)
ASSUMPTIONS = ["query ranges have positive step"]
REQUIRED_TAGS = {
    "quick": ["requery-after-edit", "op:se.assign", "op:se.update", "op:se.popitem", "op:bi_addr", "op:saveload"],
    "thorough": ["requery-after-edit", "op:se.assign", "op:se.update", "op:se.popitem", "op:bi_addr", "op:saveload"],
}
PREFIXES = ("symexpr:", "scan:")


def run_case(case):
    res = pbt.CaseResult()
    c05_blocks.run_program(case, res, PREFIXES, FAMS, ID)
    return res


def strategy():
    return scangen.cases(FAMS, max_len=30, blocks=False, symexpr=True)


def run_job(job):
    return pbt.run_hypothesis(strategy(), run_case, prefix=ID, n_examples=job["n"], seed=job["seed"],
                              max_shrink_evals=job.get("shrink", 150))


def replay(doc):
    return run_case(doc["case"])


def jobs(tier, seed):
    n, shards = (4000, 8) if tier == "quick" else (200000, 16)
    return [{"name": "hist-%d" % k, "kind": "hist", "n": n // shards, "seed": seed * 1000 + 800 + k,
             "shrink": 150 if tier == "quick" else 1500} for k in range(shards)]
