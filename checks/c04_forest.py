"""C04: containment is a forest kept consistent from both ends.

Oracles, after every op of a generated history (engine: vlib.forest):
  * both ends: c in p.<collection>  <=>  c.<parent attr> is p; no node in two
    collections or twice in one; len() agrees with iteration;
  * reference model (child -> parent map, module order per IR): the real parent
    of *every* node equals the model's, so the old parent forgot a moved node
    and nodes not named by the op did not move;
  * derived accessors .ir/.module/.section and the aggregate iterators of IR /
    Module / Section equal what the forest implies (as multisets);
  * frame condition: an attribute of every node not named by the op is unchanged;
  * isolation (separate job): nodes constructed with default or shared mutable
    arguments never share flags / AuxData maps / attributes / collections.
"""

from vlib import forest, forestgen, pbt
from checks import c03_uuid

ID = "C04"
LEVEL = "exploration"
RULE = (
    "cases: the op programs of C03 (same generator, different seeds) judged by the forest oracles, plus "
    "isolation cases (pairs of nodes of every kind constructed with default arguments or with one shared mutable "
    "argument object, then one side / the argument mutated); non-trivial = the history contains a move issued "
    "from the collection side (set or list op or constructor children) onto a node that already had a parent; "
    "distinct = SHA-1 of canonical JSON"
)
ASSUMPTIONS = c03_uuid.ASSUMPTIONS + [
    "re-inserting a module into the very list that already holds it gives the built-in result minus its old occurrence; only the same module twice inside one argument is judged by uniqueness and membership alone",
]
REQUIRED_TAGS = {
    "quick": ["failed-op:list.setslice-size-negstep", "view-operand:set.ior:other", "view-operand:list.iadd:self", "ctor-children:live-view", "ctor-children:repeated", "index-object:list.delitem", "collection-side-move", "op:load", "op:new", "op:list.insert", "op:set.update", "iso:checked"],
    "thorough": ["failed-op:list.setslice-size-negstep", "view-operand:set.ior:other", "view-operand:list.iadd:self", "ctor-children:live-view", "ctor-children:repeated", "index-object:list.delitem", "collection-side-move", "op:load", "op:new", "op:list.insert", "op:set.update", "iso:checked"],
}
PREFIXES = ("forest:",)
c03_uuid.ID_OF[PREFIXES] = "C04"


def run_case(case):
    if case.get("iso") is not None:
        return run_iso(case)
    res = pbt.CaseResult()
    g = c03_uuid._gt()
    # find collection-side moves with a throw-away model run? cheaper: detect during the run
    moved = {"v": False}

    def check(w, where):
        w.check_forest(where)

    # wrap World.model_attach to notice "had a parent" moves coming from collection-side ops
    orig = forest.World.model_attach
    current = {"side": None}

    def spy(self, kind, idx, pidx, pos=None):
        if current["side"] and self.par[(kind, idx)] is not None and self.par[(kind, idx)] != pidx:
            moved["v"] = True
        return orig(self, kind, idx, pidx, pos)

    orig_apply = forest.World.apply

    def spy_apply(self, op):
        current["side"] = op["op"] in ("set", "list", "new")
        try:
            return orig_apply(self, op)
        finally:
            current["side"] = None

    forest.World.model_attach = spy
    forest.World.apply = spy_apply
    try:
        c03_uuid.run_program(case, res, PREFIXES, check)
    finally:
        forest.World.model_attach = orig
        forest.World.apply = orig_apply
    if moved["v"]:
        res.tag("collection-side-move")
    res.nontrivial = moved["v"]
    return res


# ---------------------------------------------------------------- isolation

ISO_KINDS = ["section-flags", "module-aux", "ir-aux", "expr-attrs", "interval-contents", "interval-blocks",
             "interval-exprs", "section-intervals", "module-sets", "ir-modules", "ir-cfg"]


def run_iso(case):
    g = c03_uuid._gt()
    res = pbt.CaseResult()
    res.tag("iso:checked")
    res.nontrivial = True
    kind = ISO_KINDS[case["iso"] % len(ISO_KINDS)]
    shared = bool(case.get("shared"))
    res.tag("iso:" + kind + (":shared-arg" if shared else ":default-arg"))
    F = g.Section.Flag
    A = g.SymbolicExpression.Attribute

    def differ(what, a, b):
        res.fail("C04:forest:shared-state:" + kind, "%s (%s): %r vs %r" % (what, "shared argument" if shared else "default argument", a, b))

    if kind == "section-flags":
        arg = {F.Readable}
        a = g.Section(name="a", flags=arg) if shared else g.Section(name="a")
        b = g.Section(name="b", flags=arg) if shared else g.Section(name="b")
        a.flags.add(F.Writable)
        if F.Writable in b.flags:
            differ("flags", a.flags, b.flags)
        arg.add(F.Executable)
        if F.Executable in a.flags or F.Executable in b.flags:
            differ("flags follow the argument", a.flags, arg)
    elif kind in ("module-aux", "ir-aux"):
        arg = {"k": g.AuxData(1, "uint8_t")}
        mk = (lambda **kw: g.Module(name="m", **kw)) if kind == "module-aux" else (lambda **kw: g.IR(**kw))
        a = mk(aux_data=arg) if shared else mk()
        b = mk(aux_data=arg) if shared else mk()
        a.aux_data["x"] = g.AuxData(2, "uint8_t")
        if "x" in b.aux_data:
            differ("aux_data", list(a.aux_data), list(b.aux_data))
        arg["y"] = g.AuxData(3, "uint8_t")
        if "y" in a.aux_data or "y" in b.aux_data:
            differ("aux_data follows the argument", list(a.aux_data), list(arg))
    elif kind == "expr-attrs":
        s = g.Symbol("s")
        arg = {A.GOT}
        if case.get("v", 0) % 2:
            a = g.SymAddrConst(0, s, arg) if shared else g.SymAddrConst(0, s)
            b = g.SymAddrConst(0, s, arg) if shared else g.SymAddrConst(0, s)
        else:
            a = g.SymAddrAddr(1, 0, s, s, arg) if shared else g.SymAddrAddr(1, 0, s, s)
            b = g.SymAddrAddr(1, 0, s, s, arg) if shared else g.SymAddrAddr(1, 0, s, s)
        a.attributes.add(A.PLT)
        if A.PLT in b.attributes:
            differ("attributes", a.attributes, b.attributes)
        arg.add(A.TLS)
        if A.TLS in a.attributes or A.TLS in b.attributes:
            differ("attributes follow the argument", a.attributes, arg)
    elif kind == "interval-contents":
        arg = bytearray(b"abc")
        a = g.ByteInterval(contents=arg) if shared else g.ByteInterval(size=3, initialized_size=3)
        b = g.ByteInterval(contents=arg) if shared else g.ByteInterval(size=3, initialized_size=3)
        a.contents[0] = 0x7A
        if b.contents[0] == 0x7A:
            differ("contents", bytes(a.contents), bytes(b.contents))
        arg[1] = 0x79
        if a.contents[1] == 0x79 or b.contents[1] == 0x79:
            differ("contents follow the argument", bytes(a.contents), bytes(arg))
    elif kind == "interval-blocks":
        blk = g.CodeBlock(size=1)
        arg = [blk]
        a = g.ByteInterval(size=4, blocks=arg) if shared else g.ByteInterval(size=4)
        b = g.ByteInterval(size=4, blocks=arg) if shared else g.ByteInterval(size=4)
        extra = g.DataBlock(size=1)
        a.blocks.add(extra)
        if extra in b.blocks or (shared and (blk in a.blocks) == (blk in b.blocks)):
            differ("blocks", list(a.blocks), list(b.blocks))
        if shared and blk.byte_interval is not b:
            differ("shared block belongs to the last constructor", blk.byte_interval, b)
        arg.append(g.DataBlock(size=2))
        if len(a.blocks) + len(b.blocks) != (2 if shared else 1):
            differ("blocks follow the argument", list(a.blocks), list(b.blocks))
    elif kind == "interval-exprs":
        s = g.Symbol("s")
        arg = {0: g.SymAddrConst(0, s)}
        a = g.ByteInterval(size=4, symbolic_expressions=arg) if shared else g.ByteInterval(size=4)
        b = g.ByteInterval(size=4, symbolic_expressions=arg) if shared else g.ByteInterval(size=4)
        a.symbolic_expressions[2] = g.SymAddrConst(2, s)
        if 2 in b.symbolic_expressions:
            differ("symbolic_expressions", dict(a.symbolic_expressions), dict(b.symbolic_expressions))
        arg[3] = g.SymAddrConst(3, s)
        if 3 in a.symbolic_expressions or 3 in b.symbolic_expressions:
            differ("symbolic_expressions follow the argument", dict(a.symbolic_expressions), arg)
    elif kind == "section-intervals":
        bi = g.ByteInterval(size=1)
        arg = [bi]
        a = g.Section(name="a", byte_intervals=arg) if shared else g.Section(name="a")
        b = g.Section(name="b", byte_intervals=arg) if shared else g.Section(name="b")
        extra = g.ByteInterval(size=2)
        a.byte_intervals.add(extra)
        if extra in b.byte_intervals:
            differ("byte_intervals", list(a.byte_intervals), list(b.byte_intervals))
        if shared and (bi.section is not b or bi in a.byte_intervals):
            differ("shared interval belongs to the last constructor only", bi.section, b)
    elif kind == "module-sets":
        field = ["sections", "symbols", "proxies"][case.get("v", 0) % 3]
        mkchild = {"sections": lambda: g.Section(name="s"), "symbols": lambda: g.Symbol("y"), "proxies": lambda: g.ProxyBlock()}[field]
        c0 = mkchild()
        arg = [c0]
        a = g.Module(name="a", **({field: arg} if shared else {}))
        b = g.Module(name="b", **({field: arg} if shared else {}))
        extra = mkchild()
        getattr(a, field).add(extra)
        if extra in getattr(b, field):
            differ(field, list(getattr(a, field)), list(getattr(b, field)))
        if shared and (c0.module is not b or c0 in getattr(a, field)):
            differ("shared child belongs to the last constructor only", c0.module, b)
    elif kind == "ir-modules":
        m0 = g.Module(name="m0")
        arg = [m0]
        a = g.IR(modules=arg) if shared else g.IR()
        b = g.IR(modules=arg) if shared else g.IR()
        extra = g.Module(name="x")
        a.modules.append(extra)
        if any(m is extra for m in b.modules):
            differ("modules", list(a.modules), list(b.modules))
        if shared and (m0.ir is not b or any(m is m0 for m in a.modules)):
            differ("shared module belongs to the last constructor only", m0.ir, b)
        if a.get_by_uuid(extra.uuid) is not extra or b.get_by_uuid(extra.uuid) is not None:
            differ("uuid caches", a.get_by_uuid(extra.uuid), b.get_by_uuid(extra.uuid))
    elif kind == "ir-cfg":
        p, q = g.ProxyBlock(), g.ProxyBlock()
        arg = {g.Edge(p, q)}
        a = g.IR(cfg=arg) if shared else g.IR()
        b = g.IR(cfg=arg) if shared else g.IR()
        a.cfg.add(g.Edge(q, p))
        if g.Edge(q, p) in b.cfg:
            differ("cfg", list(a.cfg), list(b.cfg))
        arg.add(g.Edge(p, p))
        if g.Edge(p, p) in a.cfg or g.Edge(p, p) in b.cfg:
            differ("cfg follows the argument", list(a.cfg), arg)
    return res


def strategy():
    from hypothesis import strategies as st

    iso = st.fixed_dictionaries({"iso": st.integers(0, len(ISO_KINDS) - 1), "shared": st.booleans(), "v": st.integers(0, 5)})
    return st.one_of(forestgen.cases(max_len=40), forestgen.cases(max_len=40), forestgen.cases(max_len=40),
                     forestgen.cases(max_len=40), forestgen.cases(max_len=40), forestgen.cases(max_len=40),
                     forestgen.cases(max_len=40), forestgen.cases(max_len=40), forestgen.cases(max_len=40), iso)


def run_job(job):
    return pbt.run_hypothesis(strategy(), run_case, prefix=ID, n_examples=job["n"], seed=job["seed"],
                              max_shrink_evals=job.get("shrink", 400))


def replay(doc):
    return run_case(doc["case"])


def jobs(tier, seed):
    n, shards = (6000, 8) if tier == "quick" else (300000, 16)
    return [{"name": "hist-%d" % k, "kind": "hist", "n": n // shards, "seed": seed * 1000 + 500 + k,
             "shrink": 400 if tier == "quick" else 2000} for k in range(shards)]
