"""C08: AuxData bytes follow the shared wire format.

Oracles (vlib.auxref is an independent encoder/decoder written from the format
description; /repo's Java codec is a second implementation):

  1. gtirb.encode(v, T) == auxref.encode(T, v) byte for byte (the reference
     iterates the very Python container gtirb iterates, so set/dict order is
     identical);
  2. gtirb.decode(auxref.encode(T, v')) == v for v' = v with set elements /
     mapping items listed in a generated rotation;
  3. auxref.decode(gtirb.encode(v)) consumes every byte and denotes v;
  4. for the sub-grammar the Java codecs cover: Java.decode(gtirb bytes)
     renders as v, consumes every byte and re-encodes to the same bytes;
     gtirb.decode(Java.encode(Java.decode(reference bytes))) == v.
"""

import io

from vlib import auxgen, auxref, pbt, smallir, tngrammar

ID = "C08"
LEVEL = "exploration"
RULE = (
    "cases: the (type tree, value) pairs of C07 (Hypothesis, G-AUX); half of the shards draw from the "
    "sub-grammar the repository's Java codec supports (no double; tuple arity <= 5; variant arity 2/3/11) "
    "and are cross-decoded/re-encoded by it in one JVM batch per shard; non-trivial = type depth >= 2 and "
    "the value contains a non-ASCII string, a boundary integer or an attached-node leaf; distinct = SHA-1 "
    "of canonical JSON; oracle = byte-for-byte equality with an independent encoder + cross decoding"
)
ASSUMPTIONS = [
    "vlib/auxref.py renders the documented format (AuxData.hpp 'Serialization Format', property C08 text)",
    "OpenJDK 17 + the repository's Java codec sources (auxdatacodec/, tuple/, variant/, Offset, Util) with a 2-method ByteString stub",
    "Java keeps UUIDs as two little-endian longs in memory; only the 16 raw bytes it reads/writes are compared",
]
REQUIRED_TAGS = {
    "quick": ["java:checked", "has:nonascii", "has:boundary-int", "perm:nontrivial"],
    "thorough": ["java:checked", "has:nonascii", "has:boundary-int", "perm:nontrivial"],
}

JAVA_LEAVES = [
    "bool", "int8_t", "uint8_t", "int16_t", "uint16_t", "int32_t", "uint32_t",
    "int64_t", "uint64_t", "Addr", "float", "string", "UUID", "Offset",
]


def _gt():
    import gtirb

    return gtirb


def java_ok(tree):
    name, subs = tree
    if name == "tuple" and not 1 <= len(subs) <= 5:
        return False
    if name == "variant" and len(subs) not in (2, 3, 11):
        return False
    if not subs and name not in JAVA_LEAVES:
        return False
    return all(java_ok(s) for s in subs)


def _has_nan(tree, jv):
    name, subs = tree
    if name in ("float", "double"):
        return auxref.is_nan_bits64(int(jv["f"], 16))
    if name in ("sequence", "set"):
        return any(_has_nan(subs[0], x) for x in jv)
    if name == "mapping":
        return any(_has_nan(subs[0], k) or _has_nan(subs[1], v) for k, v in jv)
    if name == "tuple":
        return any(_has_nan(s, x) for s, x in zip(subs, jv))
    if name == "variant":
        return _has_nan(subs[jv["i"]], jv["v"])
    return False


def java_render(tree, jv):
    """Canonical rendering AuxDriver.render produces for the decoded value."""
    name, subs = tree
    if name == "bool":
        return "true" if jv else "false"
    if name in auxref.INT_TYPES:
        size, signed = auxref.INT_TYPES[name]
        v = jv
        if v >= 1 << (8 * size - 1):
            v -= 1 << (8 * size)
        return str(v)
    if name == "float":
        return "f%08x" % auxref.f64_to_f32_bits(int(jv["f"], 16))
    if name == "string":
        return "s" + jv.encode("utf-8").hex()
    if name == "UUID":
        return "u" + jv["u"]
    if name == "Offset":
        d = jv["d"]
        if d >= 1 << 63:
            d -= 1 << 64
        return "O(%s,%d)" % (jv["o"], d)
    if name == "sequence":
        return "[" + ",".join(java_render(subs[0], x) for x in jv) + "]"
    if name == "set":
        return "S{" + ",".join(sorted(java_render(subs[0], x) for x in jv)) + "}"
    if name == "mapping":
        return "M{" + ",".join(
            sorted(java_render(subs[0], k) + "=>" + java_render(subs[1], v) for k, v in jv)
        ) + "}"
    if name == "tuple":
        return "T(" + ",".join(java_render(s, x) for s, x in zip(subs, jv)) + ")"
    if name == "variant":
        return "V(%d:%s)" % (jv["i"], java_render(subs[jv["i"]], jv["v"]))
    raise ValueError(name)


def rotate(tree, jv, k):
    """jv with every set / mapping listed in a rotated order."""
    name, subs = tree
    if name == "sequence":
        return [rotate(subs[0], x, k) for x in jv]
    if name == "set":
        items = [rotate(subs[0], x, k) for x in jv]
        r = k % len(items) if items else 0
        return items[r:] + items[:r]
    if name == "mapping":
        items = [[rotate(subs[0], a, k), rotate(subs[1], b, k)] for a, b in jv]
        r = k % len(items) if items else 0
        return items[r:] + items[:r]
    if name == "tuple":
        return [rotate(s, x, k) for s, x in zip(subs, jv)]
    if name == "variant":
        return {"i": jv["i"], "v": rotate(subs[jv["i"]], jv["v"], k)}
    return jv


def python_side(case, res):
    """Oracles 1-3.  Returns (tree, tname, gtirb bytes, rotated reference
    bytes) or None when a failure makes the rest meaningless."""
    gtirb = _gt()
    tree = auxgen.as_tree(case["t"])
    jv = case["v"]
    auxgen.validate(tree, jv)
    tname = tngrammar.to_string(tree)
    from checks import c07_auxrt

    tags = set()
    c07_auxrt.type_tags(tree, tags)
    c07_auxrt.value_tags(tree, jv, tags)
    res.tag(*sorted(tags))
    res.nontrivial = auxgen.depth(tree) >= 2 and auxgen.interesting(tree, jv)

    ir = smallir.make(gtirb)
    lookup = ir.get_by_uuid
    pv = auxref.to_python(tree, jv, gtirb, lookup, prefer_uuid=bool(case.get("pu")))
    ser = gtirb.AuxData.serializer if case.get("shared") else gtirb.Serialization()
    if case.get("disturb") is not None:
        c07_auxrt.disturb(gtirb, ser, case["disturb"])
        res.tag("disturbed-serializer")
    buf = io.BytesIO()
    try:
        ser.encode(buf, pv, tname)
    except Exception as e:
        res.fail("C08:encode-raises:" + type(e).__name__, "%s %r: %r" % (tname, pv, e))
        return None
    data = buf.getvalue()
    ref = auxref.encode(tree, auxref.from_python(tree, pv))
    if data != ref:
        res.fail(
            "C08:bytes-differ-from-reference",
            "%s %r:\n gtirb %s\n ref   %s" % (tname, pv, data.hex(), ref.hex()),
        )
    # 3: reference decodes gtirb's bytes
    try:
        back, used = auxref.decode(tree, data)
    except auxref.RefError as e:
        res.fail("C08:reference-cannot-decode", "%s %s: %r" % (tname, data.hex(), e))
        back = None
    if back is not None:
        if used != len(data):
            res.fail("C08:reference-leaves-bytes", "%s: %d of %d" % (tname, used, len(data)))
        want = auxref.expected_python(tree, jv, gtirb, lookup)
        got = auxref.expected_python(tree, back, gtirb, lookup)
        msg = auxref.same(tree, want, got, gtirb)
        if msg:
            res.fail("C08:reference-decodes-other-value", "%s: %s" % (tname, msg))
    # 2: gtirb decodes reference bytes in a rotated container order
    k = int(case.get("rot", 1))
    jv_rot = rotate(tree, jv, k)
    if jv_rot != jv:
        res.tag("perm:nontrivial")
    foreign = auxref.encode(tree, jv_rot)
    want = auxref.expected_python(tree, jv, gtirb, lookup)
    try:
        got = ser.decode(foreign, tname, lookup)
        msg = auxref.same(tree, want, got, gtirb)
    except Exception as e:
        msg = "raised %r" % (e,)
    if msg:
        res.fail("C08:foreign-bytes-decode-differs", "%s %s: %s" % (tname, foreign.hex(), msg))
    return tree, tname, data, foreign


def java_judge(case, tree, tname, data, foreign, answers, res):
    """answers: driver results for [data, foreign]."""
    gtirb = _gt()
    jv = case["v"]
    want_render = java_render(tree, jv)
    a1, a2 = answers
    res.tag("java:checked")
    if a1[0] != "OK":
        res.fail("C08:java-cannot-decode-gtirb-bytes", "%s %s: %s" % (tname, data.hex(), a1[1]))
    else:
        _, render, reenc, used = a1
        if render != want_render:
            res.fail(
                "C08:java-decodes-other-value",
                "%s %s:\n java %s\n want %s" % (tname, data.hex(), render, want_render),
            )
        if used != len(data):
            res.fail("C08:java-leaves-bytes", "%s: %d of %d" % (tname, used, len(data)))
        if reenc != data:
            res.fail("C08:java-reencoding-differs", "%s:\n gtirb %s\n java  %s" % (tname, data.hex(), reenc.hex()))
    if a2[0] != "OK":
        res.fail("C08:java-cannot-decode-reference-bytes", "%s %s: %s (reference/driver problem?)" % (tname, foreign.hex(), a2[1]))
    else:
        _, render, reenc, used = a2
        ir = smallir.make(gtirb)
        want = auxref.expected_python(tree, jv, gtirb, ir.get_by_uuid)
        try:
            got = gtirb.Serialization().decode(reenc, tname, ir.get_by_uuid)
            msg = auxref.same(tree, want, got, gtirb)
        except Exception as e:
            msg = "raised %r" % (e,)
        if msg:
            res.fail("C08:java-bytes-decode-differs", "%s %s: %s" % (tname, reenc.hex(), msg))


def run_case_full(case):
    """Python oracles + a JVM for this single case (replay / shrinking)."""
    from vlib import javadriver

    res = pbt.CaseResult()
    r = python_side(case, res)
    if r is None:
        return res
    tree, tname, data, foreign = r
    if java_ok(tree) and not _has_nan(tree, case["v"]):
        answers = javadriver.run_batch([(tname, data), (tname, foreign)])
        java_judge(case, tree, tname, data, foreign, answers, res)
    return res


def run_case_python(case):
    res = pbt.CaseResult()
    python_side(case, res)
    return res


def strategy(java):
    from hypothesis import strategies as st

    if java:
        base = auxgen.typed_values(
            max_depth=4, leaves=JAVA_LEAVES, max_tuple=5, variant_arities=(2, 2, 3, 3, 11)
        )
    else:
        base = auxgen.typed_values(max_depth=4)
    return st.tuples(base, st.integers(1, 4), st.booleans(), st.booleans(), st.one_of(st.none(), st.integers(0, 40))).map(
        lambda t: {"t": t[0]["t"], "v": t[0]["v"], "rot": t[1], "pu": t[2], "shared": t[3], "disturb": t[4]}
    )


def run_job(job):
    from vlib import javadriver

    java = bool(job.get("java"))
    pending = []

    def run_case(case):
        res = pbt.CaseResult()
        r = python_side(case, res)
        if java and r is not None:
            tree, tname, data, foreign = r
            if java_ok(tree) and not _has_nan(tree, case["v"]):
                pending.append((case, tree, tname, data, foreign))
        return res

    result = pbt.run_hypothesis(
        strategy(java), run_case, prefix=ID, n_examples=job["n"], seed=job["seed"],
        max_shrink_evals=job.get("shrink", 300),
    )
    if java and pending:
        try:
            lines = []
            for case, tree, tname, data, foreign in pending:
                lines.append((tname, data))
                lines.append((tname, foreign))
            answers = javadriver.run_batch(lines)
        except Exception as e:
            result["errors"].append("java cross check failed to run: %r" % (e,))
            return result
        col = pbt.Collector(ID)
        for i, (case, tree, tname, data, foreign) in enumerate(pending):
            res = pbt.CaseResult()
            java_judge(case, tree, tname, data, foreign, answers[2 * i : 2 * i + 2], res)
            col.record(case, res)
        jr = col.finish(run_case_full, 40)
        pbt.bump(result["counters"], "java:checked", jr["counters"].get("java:checked", 0))
        result["failures"].extend(jr["failures"])
    return result


def replay(doc):
    return run_case_full(doc["case"])


def jobs(tier, seed):
    n, shards = (12000, 8) if tier == "quick" else (1000000, 16)
    out = []
    for k in range(shards):
        out.append({"name": "random-%d" % k, "kind": "random", "java": k % 2 == 1,
                    "n": n // shards, "seed": seed * 1000 + k,
                    "shrink": 300 if tier == "quick" else 1500})
    return out
