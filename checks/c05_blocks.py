"""C05: block lookups by address or offset equal a fresh scan at every scope.

Engine vlib.scan: edit programs with interleaved lookups; every answer is
compared with a linear scan of the reference model ('on': size > 0 and byte
range intersects [start, stop) - the step is ignored, as the suite pins; 'at':
first address / offset is a member of the range incl. its step; no address ->
never returned by address queries; code/data variants by kind).  At interval
scope the answer must equal the scan exactly and list nothing twice; at
section / module / IR scope must <= answer <= may, where `must` only counts the
part of a block inside its interval's declared extent.
"""

from vlib import pbt, scan, scangen

ID = "C05"
FAMS = ["blocks"]
LEVEL = "exploration"
RULE = (
    "cases: Hypothesis edit programs (<= 30 ops) over 1 IR, 2 modules, 3 sections, 4 intervals, <= 10 blocks in a "
    "generated layout: block offset/size assignment, interval address (incl. None<->int) / size, block moves "
    "(attribute, add, update, discard), interval / section / module moves, new blocks, save+load; coordinates from a "
    "0..24 lattice plus 2^32, 2^63, 2^64-1; interleaved queries (points and ranges with step 1,2,3,7, empty and "
    "inverted ranges) at interval / section / module / IR scope, and a final battery over every block/interval edge +-1 "
    "at every scope; non-trivial = a lookup with a non-empty answer is issued after an edit that followed an earlier "
    "lookup (index materialised, then invalidated); distinct = SHA-1 of canonical JSON"
)
ASSUMPTIONS = [
    "'on' queries use [start, stop) of a stepped range (pinned by test_blocks_on_with_range / test_byte_intervals_on)",
    "query ranges have positive step",
]
REQUIRED_TAGS = {
    "quick": ["requery-after-edit", "regime:pending<size", "regime:pending>size", "op:saveload", "op:blk_move"],
    "thorough": ["requery-after-edit", "regime:pending<size", "regime:pending=size", "regime:pending>size", "op:saveload", "op:blk_move"],
}
PREFIXES = ("blocks:", "scan:")


def _gt():
    import gtirb

    return gtirb


def run_program(case, res, prefixes, fams, prop):
    g = _gt()
    w = scan.World(g, case.get("layout", {}))
    queried = False
    edited_after_query = False
    nontrivial = False
    def do_queries(qs, where):
        nonlocal queried, nontrivial
        for qd in qs:
            w.nonempty = False
            try:
                w.query(qd, where)
            except scan.Skip:
                pass
            res.tag("query")
            if queried and edited_after_query and (w.nonempty or qd["fam"] == "extent"):
                nontrivial = True
            queried = True

    try:
        do_queries(case.get("first", []), "first lookups")
    except pbt.CaseTimeout:
        raise
    except Exception as e:  # noqa
        w.failf(pbt.exception_bucket(prefixes[0] + "query", e), repr(e))
    for n, op in enumerate(case["ops"]):
        where = "op %d %s" % (n, op["op"])
        if any(b.startswith(prefixes) for b, _ in w.fail):
            break
        try:
            if w.apply(op):
                res.tag("op:" + op["op"] + (("." + op["f"]) if "f" in op else ""))
                if queried:
                    edited_after_query = True
            do_queries(op.get("qs", []), "after " + where)
        except pbt.CaseTimeout:
            raise
        except Exception as e:  # noqa
            w.failf(pbt.exception_bucket(prefixes[0] + "op-" + op["op"], e), "%s: %r" % (where, e))
            break
    if not any(b.startswith(prefixes) for b, _ in w.fail):
        try:
            w.full_battery("final battery", fams=fams)
        except pbt.CaseTimeout:
            raise
        except Exception as e:  # noqa
            w.failf(pbt.exception_bucket(prefixes[0] + "battery", e), repr(e))
    for b, d in w.fail:
        if b.startswith(prefixes):
            res.fail(prop + ":" + b, d)
    for r in w.regimes:
        res.tag("regime:" + r)
    if nontrivial:
        res.tag("requery-after-edit")
    res.nontrivial = nontrivial
    return w


def run_case(case):
    res = pbt.CaseResult()
    run_program(case, res, PREFIXES, FAMS, ID)
    return res


def strategy():
    return scangen.cases(FAMS, max_len=30)


def run_job(job):
    return pbt.run_hypothesis(strategy(), run_case, prefix=ID, n_examples=job["n"], seed=job["seed"],
                              max_shrink_evals=job.get("shrink", 400))


def replay(doc):
    return run_case(doc["case"])


def jobs(tier, seed):
    n, shards = (2400, 8) if tier == "quick" else (120000, 16)
    return [{"name": "hist-%d" % k, "kind": "hist", "n": n // shards, "seed": seed * 1000 + k,
             "shrink": 150 if tier == "quick" else 1500} for k in range(shards)]
