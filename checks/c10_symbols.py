"""C10: symbol lookups by name and by referent track every change.

Engine: vlib.forest with symbol ops enabled.  After every op, for every module
and every name of the pool (plus unused names) symbols_named(name) must yield,
each once, exactly the module's symbols with that name; for every block / proxy
.references must yield, each once, exactly the symbols of the block's current
module whose referent is that block (nothing without a module).
"""

from vlib import forest, forestgen, pbt
from checks import c03_uuid

ID = "C10"
LEVEL = "exploration"
RULE = (
    "cases: forest op programs (<= 40 ops) restricted to modules, sections, intervals, blocks, proxies and symbols "
    "with symbol ops: rename (pool '', 'a', 'b', 'é' so names collide), payload <- block | proxy | int (0 included) | "
    "None via referent= / value=, Symbol(payload=, module=) construction, symbol add/remove/move from both ends, "
    "block / proxy / interval / section / module moves, a referenced block / proxy leaving its parent and coming straight back by five routes, load(save(ir)); non-trivial = a rename or payload change is "
    "applied to a symbol that is in a module (the following lookups must reflect it); distinct = SHA-1 of canonical JSON"
)
ASSUMPTIONS = c03_uuid.ASSUMPTIONS
REQUIRED_TAGS = {
    "quick": ["rename-attached", "payload-attached", "op:payload", "op:newsym", "referent-moved", "referent-bounced:route0", "referent-bounced:route2"],
    "thorough": ["rename-attached", "payload-attached", "op:payload", "op:newsym", "referent-moved", "referent-bounced:route0", "referent-bounced:route2"],
}
PREFIXES = ("symidx:",)
c03_uuid.ID_OF[PREFIXES] = "C10"


def run_case(case):
    res = pbt.CaseResult()
    flags = {"rename": False, "payload": False, "moved": False}
    orig_apply = forest.World.apply

    def spy_apply(self, op):
        if op["op"] in ("rename", "payload"):
            si = op["c"] % self.n("sym")
            if self.par[("sym", si)] is not None:
                flags[op["op"]] = True
        before = None
        if op["op"] in ("setparent", "set", "new"):
            before = {(k, i): self.module_of(k, i) for k in ("blk", "prx") for i in range(self.n(k))}
        r = orig_apply(self, op)
        if before is not None:
            refd = {p for p in self.sym_pay.values() if p is not None and p[0] != "int"}
            for key, old in before.items():
                if key in refd and self.module_of(*key) != old:
                    flags["moved"] = True
        return r

    forest.World.apply = spy_apply
    try:
        c03_uuid.run_program(case, res, PREFIXES, lambda w, where: w.check_symbols(where))
    finally:
        forest.World.apply = orig_apply
    if flags["rename"]:
        res.tag("rename-attached")
    if flags["payload"]:
        res.tag("payload-attached")
    if flags["moved"]:
        res.tag("referent-moved")
    res.nontrivial = flags["rename"] or flags["payload"]
    return res


def strategy():
    return forestgen.cases(max_len=40, symbols=True, list_funcs=["append", "remove", "insert", "pop"],
                           set_funcs=["add", "discard", "remove", "pop", "clear", "update", "ior", "isub", "ixor", "iand"])


def run_job(job):
    return pbt.run_hypothesis(strategy(), run_case, prefix=ID, n_examples=job["n"], seed=job["seed"],
                              max_shrink_evals=job.get("shrink", 400))


def replay(doc):
    return run_case(doc["case"])


def jobs(tier, seed):
    n, shards = (6000, 8) if tier == "quick" else (400000, 16)
    return [{"name": "hist-%d" % k, "kind": "hist", "n": n // shards, "seed": seed * 1000 + 300 + k,
             "shrink": 400 if tier == "quick" else 2000} for k in range(shards)]
