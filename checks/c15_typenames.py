"""C15: AuxData type names parse exactly per the grammar.

Oracle: vlib.tngrammar (reference recogniser/parser/printer written from the
property's grammar).  For every string s:

  reference accepts s  <=>  Serialization._parse_type(s) returns a tree,
  that tree equals the reference tree and prints back to s;
  otherwise the exception is exactly TypeNameError.

The same verdict must surface through the public Serialization.decode /
encode `type_name` argument (TypeNameError iff rejected).

Domains: (a) exhaustive enumeration of all strings over small alphabets up to
a length bound, (b) grammar-directed random trees with arbitrary Unicode
names, (c) single-edit mutants of (b).
"""

import io
import itertools

from vlib import pbt, tngrammar

ID = "C15"
LEVEL = "exploration"
RULE = (
    "cases: every string over {a,b,<,>,','}, {a,<,>,','} and {%,s,<,>,','} up to the tier's length bound "
    "(exhaustive, distinct by construction), plus Hypothesis-generated grammar trees printed to "
    "strings (names over all of Unicode) and single-edit mutants of them; a case is non-trivial "
    "when the string contains at least one '<' and at least one name character; oracle = "
    "reference recursive-descent parser: accept/reject verdict, tree equality, print(tree)==s, "
    "TypeNameError exactly on reject, same verdict through public encode/decode"
)
ASSUMPTIONS = [
    "vlib.tngrammar is a faithful rendition of the grammar in the property statement",
    "names of thousands of tokens are generated too (the former recursion limit of the parser, finding F10, is repaired)",
]
REQUIRED_TAGS = {"quick": ["accepted", "rejected"], "thorough": ["accepted", "rejected"]}


def _gt():
    import gtirb
    from gtirb import serialization

    return gtirb, serialization


def impl_tree(st):
    """SubtypeTree -> (name, [subtrees]) without recursion"""
    root = (st.name, [])
    work = [(st, root)]
    while work:
        node, out = work.pop()
        for sub in node.subtypes:
            child = (sub.name, [])
            out[1].append(child)
            work.append((sub, child))
    return root


def trees_equal(a, b):
    """structural equality without recursion (names may nest thousands deep)"""
    work = [(a, b)]
    while work:
        x, y = work.pop()
        if x[0] != y[0] or len(x[1]) != len(y[1]):
            return False
        work.extend(zip(x[1], y[1]))
    return True


def check_string(s, res, public=True):
    gtirb, ser = _gt()
    try:
        want = tngrammar.parse(s)
    except tngrammar.Reject:
        want = None
    try:
        got = ser.Serialization._parse_type(s)
        exc = None
    except BaseException as e:  # noqa
        got = None
        exc = e
    if want is None:
        res.tag("rejected")
        if exc is None:
            res.fail("C15:accepts-invalid", "%r accepted as %r" % (s[:300], tngrammar.to_string(impl_tree(got))[:300]))
        elif type(exc) is not ser.TypeNameError:
            res.fail("C15:wrong-exception:" + type(exc).__name__, "%r raised %r" % (s, exc))
    else:
        res.tag("accepted")
        if exc is not None:
            res.fail("C15:rejects-valid:" + type(exc).__name__, "%r raised %r" % (s, exc))
        else:
            t = impl_tree(got)
            if not trees_equal(t, want):
                res.fail("C15:wrong-tree", "%r -> %r, expected %r" % (s[:300], tngrammar.to_string(t)[:300], tngrammar.to_string(want)[:300]))
            elif tngrammar.to_string(t) != s:
                res.fail("C15:print-mismatch", "%r" % (s,))
            if not isinstance(got.subtypes, (tuple, list)):
                res.fail("C15:subtypes-not-sequence", repr(type(got.subtypes)))
    if public:
        for which in ("decode", "encode"):
            sobj = ser.Serialization()
            try:
                if which == "decode":
                    sobj.decode(b"", s)
                else:
                    sobj.encode(io.BytesIO(), None, s)
                raised = None
            except BaseException as e:  # noqa
                raised = e
            is_tne = type(raised) is ser.TypeNameError
            if want is None and not is_tne:
                res.fail(
                    "C15:public-%s-no-TypeNameError" % which,
                    "%r: %r" % (s, raised),
                )
            if want is not None and isinstance(raised, ser.TypeNameError):
                res.fail("C15:public-%s-TypeNameError-on-valid" % which, "%r: %r" % (s, raised))
    return res


def nontrivial(s):
    return "<" in s and any(c not in "<>," for c in s)


def run_case(case):
    res = pbt.CaseResult()
    s = case["s"]
    check_string(s, res, public=True)
    # strings of length < 14 may coincide with enumerated ones: not counted
    res.nontrivial = nontrivial(s) and len(s) >= 14
    if case.get("kind"):
        res.tag("kind:" + case["kind"])
    return res


# ---------------------------------------------------------------- enumeration


def run_enum(job):
    alphabet = job["alphabet"]
    maxlen = job["maxlen"]
    out = pbt.new_job_result()
    col = pbt.Collector(ID)
    count = 0
    nontriv = 0
    counters = out["counters"]
    accepted = rejected = 0
    samples = []
    for prefix in job["prefixes"]:
        rest = maxlen - len(prefix)
        lens = range(0, rest + 1) if job.get("extend", True) else [0]
        for n in lens:
            for tup in itertools.product(alphabet, repeat=n):
                s = prefix + "".join(tup)
                res = pbt.CaseResult()
                check_string(s, res, public=(len(s) <= job.get("public_maxlen", 6)))
                count += 1
                if "accepted" in res.tags:
                    accepted += 1
                else:
                    rejected += 1
                if nontrivial(s) and len(s) > job.get("count_minlen", -1):
                    nontriv += 1
                    if len(samples) < 2 and len(s) >= 5 and "accepted" in res.tags:
                        samples.append({"s": s, "kind": "enum"})
                if res.failures:
                    col.record({"s": s, "kind": "enum"}, res)
    r = col.finish(run_case, 200)
    r["evaluations"] = count
    r["nontrivial_hashes"] = []
    r["nontrivial_count"] = nontriv
    r["samples"] = samples
    r["counters"] = {"accepted": accepted, "rejected": rejected, "kind:enum": count}
    return r


# ---------------------------------------------------------------- random


def strategies():
    from hypothesis import strategies as st

    name_chars = st.characters(blacklist_characters="<>,", blacklist_categories=("Cs",))
    name = st.one_of(
        st.sampled_from(["a", "b", "string", "UUID", "mapping", "sequence", " x", "é", "\n", "\x00"]),
        # characters that mean something to printf / str.format / regular expressions / shells
        st.sampled_from(["%s", "%d", "a%sb", "%(x)s", "%", "%%", "{}", "{0}", "{x}", "\\", "$1", ".*", "(", ")", "[a]", "'", '"', "#", "a b", "\t"]),
        st.text(name_chars, min_size=1, max_size=6),
    )

    def extend(children):
        return st.tuples(name, st.lists(children, min_size=1, max_size=4)).map(
            lambda t: [t[0], t[1]]
        )

    leaf = name.map(lambda n: [n, []])
    tree = st.recursive(leaf, extend, max_leaves=25)

    # occasionally very deep / very wide trees
    deep = st.builds(
        lambda names: _chain(names),
        st.lists(name, min_size=10, max_size=40),
    )
    wide = st.builds(
        lambda n, names: [n, [[x, []] for x in names]],
        name,
        st.lists(name, min_size=20, max_size=120),
    )
    anytree = st.one_of(tree, tree, tree, deep, wide)

    edit = st.tuples(
        st.sampled_from(["ins", "del", "rep", "append", "dup"]),
        st.integers(0, 10**6),
        st.sampled_from(["<", ">", ",", "a", ">>", ",,", "<>", "<a", ",a", ">a"]),
    )

    @st.composite
    def case(draw):
        t = draw(anytree)
        s = tngrammar.to_string(_as_tuple(t))
        kind = draw(st.sampled_from(["valid", "mutant", "mutant", "mutant2"]))
        if kind != "valid":
            for _ in range(1 if kind == "mutant" else 2):
                op, pos, tok = draw(edit)
                s = _apply_edit(s, op, pos, tok)
        return {"s": s, "kind": kind}

    return case()


def _chain(names):
    t = [names[-1], []]
    for n in reversed(names[:-1]):
        t = [n, [t]]
    return t


def _as_tuple(t):
    return (t[0], [_as_tuple(x) for x in t[1]])


def _apply_edit(s, op, pos, tok):
    # edits concentrate on delimiter positions, where the near misses live
    idxs = [i for i, c in enumerate(s) if c in "<>,"] or [0]
    p = idxs[pos % len(idxs)] if pos % 3 else pos % (len(s) + 1)
    if op == "ins":
        return s[:p] + tok + s[p:]
    if op == "del":
        return s[:p] + s[p + 1 :]
    if op == "rep":
        return s[:p] + tok + s[p + 1 :]
    if op == "dup":
        return s[:p] + s[p : p + 1] + s[p:]
    return s + tok


def long_strategy():
    """names far beyond the ordinary: thousands of siblings / nesting levels /
    both, valid and with one edit"""
    from hypothesis import strategies as st

    @st.composite
    def case(draw):
        n = draw(st.sampled_from([300, 600, 950, 1200, 2000, 4000]))
        shape = draw(st.sampled_from(["siblings", "nest", "comb"]))
        nm = draw(st.sampled_from(["a", "uint8_t", "é"]))
        if shape == "siblings":
            s = "tuple<" + ",".join([nm] * n) + ">"
        elif shape == "nest":
            s = (nm + "<") * n + nm + ">" * n
        else:
            inner = "t<" + ",".join([nm] * (n // 20)) + ">"
            s = ("s<" * 20) + inner + (">" * 20)
        kind = draw(st.sampled_from(["valid", "valid", "mutant"]))
        if kind == "mutant":
            op, pos, tok = draw(st.tuples(st.sampled_from(["ins", "del", "rep", "append"]), st.integers(0, 10**6),
                                          st.sampled_from(["<", ">", ",", ">>", ",,", "<>"])))
            s = _apply_edit(s, op, pos, tok)
        return {"s": s, "kind": "long-" + kind}

    return case()


def run_long_case(case):
    res = pbt.CaseResult()
    check_string(case["s"], res, public=False)
    res.nontrivial = True
    res.tag("kind:" + case["kind"])
    return res


def run_job(job):
    if job["kind"] == "enum":
        return run_enum(job)
    if job["kind"] == "long":
        import sys

        sys.setrecursionlimit(max(sys.getrecursionlimit(), 1000))
        return pbt.run_hypothesis(long_strategy(), run_long_case, prefix=ID, n_examples=job["n"], seed=job["seed"],
                                  max_shrink_evals=job.get("shrink", 60))
    return pbt.run_hypothesis(
        strategies(),
        run_case,
        prefix=ID,
        n_examples=job["n"],
        seed=job["seed"],
        max_shrink_evals=job.get("shrink", 300),
    )


def replay(doc):
    if str(doc["case"].get("kind", "")).startswith("long-"):
        return run_long_case(doc["case"])
    return run_case(doc["case"])


def _prefix_jobs(alphabet, maxlen, plen, nshards, public_maxlen, count_minlen=-1):
    prefixes = ["".join(t) for t in itertools.product(alphabet, repeat=plen)]
    jobs = []
    # strings shorter than the prefix length: one small job
    short = ["".join(t) for n in range(plen) for t in itertools.product(alphabet, repeat=n)]
    jobs.append(
        {
            "name": "enum-%s-short" % len(alphabet),
            "kind": "enum",
            "alphabet": alphabet,
            "maxlen": maxlen,
            "prefixes": short,
            "extend": False,
            "public_maxlen": public_maxlen,
            "count_minlen": count_minlen,
        }
    )
    for k in range(nshards):
        part = prefixes[k::nshards]
        if part:
            jobs.append(
                {
                    "name": "enum-%s-%d" % (len(alphabet), k),
                    "kind": "enum",
                    "alphabet": alphabet,
                    "maxlen": maxlen,
                    "prefixes": part,
                    "public_maxlen": public_maxlen,
                    "count_minlen": count_minlen,
                }
            )
    return jobs


def jobs(tier, seed):
    out = []
    if tier == "quick":
        enum = _prefix_jobs("ab<>,", 8, 2, 6, 5)
        enum += _prefix_jobs("a<>,", 9, 2, 2, 5, count_minlen=8)
        enum += _prefix_jobs("%s<>,", 7, 2, 2, 5)
        n, shards = 6000, 4
    else:
        enum = _prefix_jobs("ab<>,", 11, 3, 40, 7)
        enum += _prefix_jobs("a<>,", 13, 3, 24, 7, count_minlen=11)
        enum += _prefix_jobs("%s<>,", 10, 3, 16, 7)
        enum += _prefix_jobs("{}<>,", 9, 3, 8, 7)
        n, shards = 160000, 16
    for k in range(shards):
        out.append(
            {
                "name": "random-%d" % k,
                "kind": "random",
                "n": n // shards,
                "seed": seed * 1000 + k,
                "shrink": 300 if tier == "quick" else 1500,
            }
        )
    out.append({"name": "long", "kind": "long", "n": 60 if tier == "quick" else 1500, "seed": seed * 1000 + 99,
                "shrink": 40 if tier == "quick" else 200})
    return out + enum
