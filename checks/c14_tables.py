"""C14: AuxData tables are never silently lost, staled or rewritten.

Tables (type_name, bytes) are produced *outside* gtirb (vlib.auxref), planted
into IR- and module-level aux_data of a small IR message, loaded, driven
through 1-3 save/load generations of user actions, and every written table is
judged against a model of "what the user did":

  never read, type name untouched      -> (type_name, data) identical to the loaded bytes
  type involves an unknown codec name  -> data identical to the loaded bytes, read or not
  supported type and read / mutated in place / assigned / retyped
                                       -> type_name = current one and the data decodes
                                          (reference decoder) to the current value
"""

import io

from vlib import auxgen, auxref, pbt, smallir, snapshot, tngrammar

ID = "C14"
LEVEL = "exploration"
RULE = (
    "cases: 1-4 foreign-encoded tables (G-AUX type trees where any node may carry an unknown codec name; bytes from the "
    "reference encoder for the known prefix, junk from the first reached unknown node on; non-canonical but decodable "
    "encodings: repeated set element, repeated mapping key, rotated order) x 1-3 generations of per-table actions {leave, "
    "read, read+mutate in place (append/add/setitem/remove), assign data, assign type_name (integer widening, Addr<->"
    "uint64_t, float->double) read or unread}; non-trivial = the history has a read-then-mutate or a retype, or a table "
    "whose unknown part is never reached by the bytes, or a never-read non-canonical table; distinct = SHA-1 of canonical JSON"
)
ASSUMPTIONS = [
    "retyping to a type that cannot encode the value, or to an unknown name, raises EncodeError (not silent) and is not generated",
    "tables with an unknown codec name are only left alone or read (their value cannot be re-encoded by this API)",
]
REQUIRED_TAGS = {
    "quick": ["act:mutate-held-reference-after-save", "gen:same-ir-saved-again", "table:twin", "act:mutate", "act:retype", "act:assign", "act:assign-unread", "act:read", "table:unknown-unreached", "table:unknown-reached", "table:noncanonical", "gens>=2"],
    "thorough": ["act:mutate-held-reference-after-save", "gen:same-ir-saved-again", "table:twin", "act:mutate", "act:retype", "act:assign", "act:assign-unread", "act:read", "table:unknown-unreached", "table:unknown-reached", "table:noncanonical", "gens>=2"],
}

UNKNOWN_NAMES = ["foo", "my", "uint128_t", "Set", "string "]
WIDEN = {"uint8_t": "uint16_t", "uint16_t": "uint32_t", "uint32_t": "uint64_t", "uint64_t": "Addr", "Addr": "uint64_t",
         "int8_t": "int16_t", "int16_t": "int32_t", "int32_t": "int64_t", "float": "double"}


def _ek(key):
    """equality class of a set element / mapping key as Python sees it
    (0.0 and -0.0 are one key; the key object itself is hashable)"""
    return key


def _gt():
    import gtirb

    return gtirb


class _Stop(Exception):
    pass


def encode_partial(tree, jv, out):
    """reference encoding that stops at the first *reached* unknown name"""
    name, subs = tree
    if name not in auxref.KNOWN:
        raise _Stop()
    if name in ("sequence", "set"):
        out += auxref._le(len(jv), 8)
        for x in jv:
            encode_partial(subs[0], x, out)
    elif name == "mapping":
        out += auxref._le(len(jv), 8)
        for k, v in jv:
            encode_partial(subs[0], k, out)
            encode_partial(subs[1], v, out)
    elif name == "tuple":
        for s, x in zip(subs, jv):
            encode_partial(s, x, out)
    elif name == "variant":
        out += auxref._le(jv["i"], 8)
        encode_partial(subs[jv["i"]], jv["v"], out)
    else:
        out += auxref.encode(tree, jv)


def type_nodes(tree, path=()):
    out = [path]
    for i, s in enumerate(tree[1]):
        out += type_nodes(s, path + (i,))
    return out


def rename_at(tree, path, new):
    if not path:
        return (new, tree[1])
    subs = list(tree[1])
    subs[path[0]] = rename_at(subs[path[0]], path[1:], new)
    return (tree[0], subs)


def name_at(tree, path):
    for i in path:
        tree = tree[1][i]
    return tree[0]


def noncanonical(tree, jv, k):
    """a differently ordered / redundant but equivalent listing of jv"""
    name, subs = tree
    if name == "sequence":
        return [noncanonical(subs[0], x, k) for x in jv]
    if name == "set":
        items = [noncanonical(subs[0], x, k) for x in jv]
        if items:
            r = k % len(items)
            items = items[r:] + items[:r]
            if k % 2:
                items = items + [items[0]]
        return items
    if name == "mapping":
        items = [[noncanonical(subs[0], a, k), noncanonical(subs[1], b, k)] for a, b in jv]
        if items:
            r = k % len(items)
            items = items[r:] + items[:r]
            if k % 3 == 1:
                # a repeated key: the *last* listing wins in a dict
                items = [items[-1]] + items
        return items
    if name == "tuple":
        return [noncanonical(s, x, k) for s, x in zip(subs, jv)]
    if name == "variant":
        return {"i": jv["i"], "v": noncanonical(subs[jv["i"]], jv["v"], k)}
    return jv


def make_table(t, res):
    """-> dict(tname, raw, tree (known trees only), unknown: bool)"""
    tree = auxgen.as_tree(t["t"])
    jv = t["v"]
    auxgen.validate(tree, jv)
    unk = t.get("unk")
    if unk is not None:
        paths = type_nodes(tree)
        start = unk["node"] % len(paths)
        order = paths[start:] + paths[:start]
        if not unk.get("prefer_unreached"):
            order = order[:1]
        for path in order:
            utree = rename_at(tree, path, UNKNOWN_NAMES[unk["name"] % len(UNKNOWN_NAMES)])
            out = bytearray()
            try:
                encode_partial(utree, jv, out)
                reached = False
                break
            except _Stop:
                reached = True
        if reached:
            utree = rename_at(tree, order[0], UNKNOWN_NAMES[unk["name"] % len(UNKNOWN_NAMES)])
            out = bytearray()
            try:
                encode_partial(utree, jv, out)
            except _Stop:
                pass
            out += bytes(b % 256 for b in unk.get("junk", [1, 2, 3]))
        res.tag("table:unknown-reached" if reached else "table:unknown-unreached")
        return {"tname": tngrammar.to_string(utree), "raw": bytes(out), "tree": None, "unknown": True, "unreached": not reached}
    nc = t.get("nc", 0)
    listing = noncanonical(tree, jv, nc) if nc else jv
    raw = auxref.encode(tree, listing)
    is_nc = raw != auxref.encode(tree, jv)
    if is_nc:
        res.tag("table:noncanonical")
    return {"tname": tngrammar.to_string(tree), "raw": raw, "tree": tree, "unknown": False, "noncanonical": is_nc}


def widen(tree, k):
    """retype one widenable leaf; -> new tree or None"""
    paths = [p for p in type_nodes(tree) if name_at(tree, p) in WIDEN]
    if not paths:
        return None
    p = paths[k % len(paths)]
    return rename_at(tree, p, WIDEN[name_at(tree, p)])


def decoded_value(tree, raw):
    """the value the user sees after reading: reference decode + the
    collapsing a Python set / dict performs"""
    from vlib import refmsg

    jv, used = auxref.decode(tree, raw)
    return refmsg._collapse(tree, jv)


def header():
    from vlib import refmsg

    return b"GTIRB\x00\x00" + bytes([refmsg.proto_version()])


def run_case(case):
    g = _gt()
    from gtirb.proto import IR_pb2

    res = pbt.CaseResult()
    tables = []
    for i, t in enumerate(case["tables"][:4]):
        tb = make_table(t, res)
        tb["holder"] = t.get("holder", 0) % 2
        tb["key"] = "t%d" % i if t.get("key") is None else "%s%d" % (t["key"], i)
        # values the user stores are float32-representable where the type says
        # 'float' (two doubles rounding to one float32 would be two set elements
        # in Python but one on the wire)
        tb["alts"] = [round_floats(auxgen.as_tree(t["t"]), a) for a in t.get("alts", []) if _valid(auxgen.as_tree(t["t"]), a)]
        tables.append(tb)
    if tables and case.get("twin"):
        # the same (type, bytes) planted a second time in the other holder: the
        # two tables are independent values (no sharing through any decode memo)
        tw = dict(tables[0])
        tw["holder"] = 1 - tables[0]["holder"]
        tw["key"] = "twin"
        tw["alts"] = list(tables[0]["alts"])
        tables = (tables + [tw])[:5] if len(tables) < 4 else tables[:3] + [tw]
        res.tag("table:twin")
    if not tables:
        return res
    base = IR_pb2.IR()
    base.ParseFromString(smallir.save(smallir.make(g))[8:])
    for tb in tables:
        cont = base.aux_data if tb["holder"] == 0 else base.modules[0].aux_data
        cont[tb["key"]].type_name = tb["tname"]
        cont[tb["key"]].data = tb["raw"]
    data = header() + base.SerializeToString()
    gens = case.get("gens", [[]])[:3]
    if len(gens) >= 2:
        res.tag("gens>=2")
    nontrivial = any(tb.get("unreached") for tb in tables)
    keep = case.get("keep", [])
    ir = None
    for gi, actions in enumerate(gens):
        where = "generation %d" % gi
        # "keep": the IR object saved by the previous generation is edited and
        # saved again (no reload in between); values read earlier are still
        # held by the user and edited through those references
        reuse = ir is not None and gi - 1 < len(keep) and bool(keep[gi - 1])
        if reuse:
            res.tag("gen:same-ir-saved-again")
            where += " (same IR object, saved before)"
        else:
            try:
                ir = g.IR.load_protobuf_file(io.BytesIO(data))
            except pbt.CaseTimeout:
                raise
            except Exception as e:
                res.fail(pbt.exception_bucket("C14:load", e), "%s: %r" % (where, e))
                return res
            for tb in tables:
                tb["dirty"] = False
                tb["read"] = False
                tb["value"] = None
                tb["pv"] = None
        lookup = ir.get_by_uuid
        for ti, tb in enumerate(tables):
            act = actions[ti] if ti < len(actions) else {"a": "leave"}
            a = act.get("a", "leave")
            holder = ir if tb["holder"] == 0 else ir.modules[0]
            ad = holder.aux_data.get(tb["key"])
            if ad is None or ad.type_name != tb["tname"]:
                res.fail("C14:table-lost-on-load", "%s: %s" % (where, tb["key"]))
                return res
            if tb["unknown"] and a not in ("leave", "read"):
                a = "read"
            if a == "retype" and widen(tb["tree"], act.get("k", 0)) is None:
                a = "read"
            res.tag("act:" + a)
            try:
                if a == "leave":
                    if tb.get("noncanonical"):
                        nontrivial = True
                    continue
                if a == "read":
                    got = ad.data
                    tb["read"] = True
                    if tb["unknown"]:
                        if tb.get("unreached") is False and not isinstance(got, bytes):
                            res.fail("C14:unknown-type-read-not-opaque", "%s %s: %r" % (where, tb["tname"], type(got)))
                    else:
                        if tb["value"] is None:
                            tb["value"] = decoded_value(tb["tree"], tb["raw"])
                        tb["pv"] = got
                    continue
                tree = tb["tree"]
                held = a == "mutate" and reuse and tb["pv"] is not None and tb["value"] is not None and not act.get("readfirst")
                if held:
                    # edit through the reference obtained before the last save
                    pv = tb["pv"]
                    res.tag("act:mutate-held-reference-after-save")
                elif a == "mutate" or (a in ("retype", "assign") and act.get("readfirst")):
                    pv = ad.data
                    tb["read"] = True
                    if tb["value"] is None:
                        tb["value"] = decoded_value(tree, tb["raw"])
                    tb["pv"] = pv
                if a == "mutate":
                    nontrivial = True
                    new = mutate(g, tree, tb["value"], pv, tb["alts"], act.get("k", 0), lookup)
                    if new is None:
                        # immutable top-level value: replace it
                        alt = pick_alt(tree, tb["alts"], act.get("k", 0))
                        tb["pv"] = auxref.to_python(tree, alt, g, lookup)
                        ad.data = tb["pv"]
                        new = alt
                    tb["value"] = new
                    tb["dirty"] = True
                elif a == "assign":
                    if not tb["read"]:
                        res.tag("act:assign-unread")
                    alt = pick_alt(tree, tb["alts"], act.get("k", 0))
                    tb["pv"] = auxref.to_python(tree, alt, g, lookup)
                    ad.data = tb["pv"]
                    tb["value"] = alt
                    tb["dirty"] = True
                elif a == "retype":
                    nontrivial = True
                    new_tree = widen(tree, act.get("k", 0))
                    if tb["value"] is None:
                        tb["value"] = decoded_value(tree, tb["raw"])
                    ad.type_name = tngrammar.to_string(new_tree)
                    tb["tree"] = new_tree
                    tb["tname"] = tngrammar.to_string(new_tree)
                    tb["dirty"] = True
            except pbt.CaseTimeout:
                raise
            except Exception as e:
                res.fail(pbt.exception_bucket("C14:action-" + a, e), "%s table %s %s: %r" % (where, tb["key"], tb["tname"], e))
                return res
        # save and judge
        try:
            buf = io.BytesIO()
            ir.save_protobuf_file(buf)
        except pbt.CaseTimeout:
            raise
        except Exception as e:
            res.fail(pbt.exception_bucket("C14:save", e), "%s: %r" % (where, e))
            return res
        data = buf.getvalue()
        msg = IR_pb2.IR()
        msg.ParseFromString(data[8:])
        for tb in tables:
            cont = msg.aux_data if tb["holder"] == 0 else msg.modules[0].aux_data
            if tb["key"] not in cont:
                res.fail("C14:table-lost-on-save", "%s: %s (%s)" % (where, tb["key"], tb["tname"]))
                continue
            w = cont[tb["key"]]
            if w.type_name != tb["tname"]:
                res.fail("C14:type-name-changed", "%s: %s: %r -> %r" % (where, tb["key"], tb["tname"], w.type_name))
                continue
            if tb["unknown"]:
                if w.data != tb["raw"]:
                    res.fail(
                        "C14:unknown-type-bytes-rewritten" + ("-after-read" if tb["read"] else ""),
                        "%s: %s %s: %s -> %s" % (where, tb["key"], tb["tname"], tb["raw"].hex(), w.data.hex()),
                    )
            elif not tb["read"] and not tb["dirty"]:
                if w.data != tb["raw"]:
                    res.fail(
                        "C14:unread-table-bytes-rewritten",
                        "%s: %s %s: %s -> %s" % (where, tb["key"], tb["tname"], tb["raw"].hex(), w.data.hex()),
                    )
            else:
                tree = tb["tree"]
                try:
                    got, used = auxref.decode(tree, w.data)
                except (auxref.RefError, UnicodeDecodeError) as e:
                    res.fail("C14:written-bytes-undecodable", "%s: %s %s: %r (%s)" % (where, tb["key"], tb["tname"], e, w.data.hex()))
                    continue
                want_c = snapshot.canon_jv(tree, tb["value"])
                got_c = snapshot.canon_jv(tree, got)
                if used != len(w.data) or got_c != want_c:
                    stale = w.data == tb["raw"]
                    res.fail(
                        "C14:written-value-is-not-current-value" + ("-stale-bytes" if stale else ""),
                        "%s: %s %s: written %s, current value %s" % (where, tb["key"], tb["tname"], snapshot._short(got_c), snapshot._short(want_c)),
                    )
            tb["raw"] = bytes(w.data)
    res.nontrivial = nontrivial
    return res


def _valid(tree, jv):
    try:
        auxgen.validate(tree, jv)
        return True
    except auxgen.InvalidCase:
        return False


def round_floats(tree, jv):
    name, subs = tree
    if name == "float":
        b32 = auxref.f64_to_f32_bits(int(jv["f"], 16))
        return {"f": "%016x" % auxref.f32_bits_to_f64_bits(b32)}
    if name == "sequence":
        return [round_floats(subs[0], x) for x in jv]
    if name == "set":
        out, seen = [], set()
        for x in jv:
            x = round_floats(subs[0], x)
            k = _ek(auxgen.eqkey(subs[0], x))
            if k not in seen:
                seen.add(k)
                out.append(x)
        return out
    if name == "mapping":
        out, seen = [], set()
        for a, b in jv:
            a = round_floats(subs[0], a)
            k = _ek(auxgen.eqkey(subs[0], a))
            if k not in seen:
                seen.add(k)
                out.append([a, round_floats(subs[1], b)])
        return out
    if name == "tuple":
        return [round_floats(s, x) for s, x in zip(subs, jv)]
    if name == "variant":
        return {"i": jv["i"], "v": round_floats(subs[jv["i"]], jv["v"])}
    return jv


def pick_alt(tree, alts, k):
    for j in range(len(alts)):
        alt = alts[(k + j) % len(alts)]
        try:
            auxgen.validate(tree, alt)
            return alt
        except auxgen.InvalidCase:
            continue
    raise auxgen.InvalidCase("no alternative value of this type")


def mutate(g, tree, cur, pv, alts, k, lookup):
    """in-place edit of the top-level container; returns the model's new jv or
    None when the top level is immutable"""
    name, subs = tree
    alt = None
    for a in alts:
        try:
            auxgen.validate(tree, a)
            alt = a
            break
        except auxgen.InvalidCase:
            pass
    if name == "sequence":
        if alt:
            e = alt[k % len(alt)]
            pv.append(auxref.to_python(subs[0], e, g, lookup))
            return cur + [e]
        if cur:
            pv.pop()
            return cur[:-1]
        return None
    if name == "set":
        if alt:
            e = alt[k % len(alt)]
            pv.add(auxref.to_python(subs[0], e, g, lookup, in_key=True))
            key = _ek(auxgen.eqkey(subs[0], e))
            if any(_ek(auxgen.eqkey(subs[0], x)) == key for x in cur):
                return cur
            return cur + [e]
        if cur:
            e = cur[k % len(cur)]
            pv.discard(auxref.to_python(subs[0], e, g, lookup, in_key=True))
            return [x for x in cur if x is not e]
        return None
    if name == "mapping":
        if alt:
            kk, vv = alt[k % len(alt)]
            pv[auxref.to_python(subs[0], kk, g, lookup, in_key=True)] = auxref.to_python(subs[1], vv, g, lookup)
            key = _ek(auxgen.eqkey(subs[0], kk))
            out, hit = [], False
            for a, b in cur:
                if _ek(auxgen.eqkey(subs[0], a)) == key:
                    out.append([a, vv])
                    hit = True
                else:
                    out.append([a, b])
            if not hit:
                out.append([kk, vv])
            return out
        if cur:
            a, b = cur[k % len(cur)]
            del pv[auxref.to_python(subs[0], a, g, lookup, in_key=True)]
            return [x for x in cur if x[0] is not a]
        return None
    return None


def strategy():
    from hypothesis import strategies as st

    @st.composite
    def table(draw):
        tv = draw(auxgen.typed_values(max_depth=3))
        tree = auxgen.as_tree(tv["t"])
        alts = [auxgen.draw_value(draw, tv["t"]) for _ in range(2)]
        kind = draw(st.sampled_from(["known", "known", "known", "noncanon", "noncanon", "unknown", "unknown"]))
        t = {"t": tv["t"], "v": tv["v"], "alts": alts, "holder": draw(st.integers(0, 1)), "key": draw(st.sampled_from([None, "é", ""]))}
        if kind == "noncanon":
            t["nc"] = draw(st.integers(1, 12))
        elif kind == "unknown":
            t["unk"] = {
                "node": draw(st.integers(0, 30)),
                "name": draw(st.integers(0, len(UNKNOWN_NAMES) - 1)),
                "junk": draw(st.lists(st.integers(0, 255), max_size=12)),
                "prefer_unreached": draw(st.booleans()),
            }
        return t

    action = st.fixed_dictionaries(
        {"a": st.sampled_from(["leave", "leave", "read", "read", "mutate", "mutate", "assign", "retype", "retype"]),
         "k": st.integers(0, 20), "readfirst": st.booleans()}
    )
    return st.fixed_dictionaries(
        {
            "tables": st.lists(table(), min_size=1, max_size=4),
            "gens": st.lists(st.lists(action, min_size=5, max_size=5), min_size=1, max_size=3),
            "twin": st.sampled_from([False, False, True]),
            "keep": st.lists(st.booleans(), min_size=2, max_size=2),
        }
    )


def run_job(job):
    return pbt.run_hypothesis(strategy(), run_case, prefix=ID, n_examples=job["n"], seed=job["seed"],
                              max_shrink_evals=job.get("shrink", 300))


def replay(doc):
    return run_case(doc["case"])


def jobs(tier, seed):
    n, shards = (6000, 8) if tier == "quick" else (600000, 16)
    return [{"name": "tables-%d" % k, "kind": "tables", "n": n // shards, "seed": seed * 1000 + 100 + k,
             "shrink": 300 if tier == "quick" else 1500} for k in range(shards)]
