"""C16: owning collections behave like the built-in list, set and dict.

Two engines:
  * vlib.forest programs extended with the non-mutating part of the interfaces
    (membership, len, iteration, comparisons, | & - ^ and their reflected forms
    with sets / frozensets / other wrappers, slicing, index, count, reversed):
    return values, exception types and resulting contents are compared with
    the built-in operation on the same elements (move semantics for nodes owned
    elsewhere); after every call - failed ones included - the forest must equal
    the reference model;
  * mapping programs on ByteInterval.symbolic_expressions against a dict
    (iteration by offset).
"""

from vlib import forest, forestgen, pbt, progs
from checks import c03_uuid

ID = "C16"
LEVEL = "exploration"
RULE = (
    "cases: (a) forest op programs (see C03) extended with queries: contains/len/iter, ==,!=,<=,<,>=,>, isdisjoint, "
    "|,&,-,^ and reflected forms with set/frozenset/other owning set, getitem/slices/index/count/reversed on "
    "ir.modules, with members, non-members, nodes owned elsewhere, out-of-range and negative indices, wrong-length "
    "extended slices; (b) mapping programs on symbolic_expressions ([] []= del pop popitem setdefault update(mapping|"
    "pairs|other mapping|itself) clear get keys/values/items contains == len iter, whole-mapping assignment from a dict, "
    "another interval's mapping or the interval's own mapping) against a dict; non-trivial = the program calls a "
    "mixin-provided method (reverse, +=, pop, clear, setdefault, popitem, a binary or in-place operator) on a non-empty "
    "collection; distinct = SHA-1 of canonical JSON"
)
ASSUMPTIONS = [
    "list ==/ordering and named set methods (union, issubset, copy) are outside MutableSequence/MutableSet and not demanded",
    "re-inserting a module into the list that already holds it is judged by uniqueness/membership only",
    "set.pop / popitem may return any member",
]
REQUIRED_TAGS = {
    "quick": ["failed-op:list.extend", "failed-op:list.setslice", "map:failed-update", "view-operand:set.ixor:other", "view-operand:set.update:self", "view-operand:list.extend:other", "index-object:list.pop", "mixin-on-nonempty", "op:setq.and", "op:setq.or", "op:list.reverse", "op:set.update", "map:assign-self", "map:popitem"],
    "thorough": ["failed-op:list.extend", "failed-op:list.setslice", "map:failed-update", "view-operand:set.ixor:other", "view-operand:set.update:self", "view-operand:list.extend:other", "index-object:list.pop", "mixin-on-nonempty", "op:setq.and", "op:setq.or", "op:list.reverse", "op:set.update", "map:assign-self", "map:popitem"],
}
PREFIXES = ("refine:", "forest:")
c03_uuid.ID_OF[PREFIXES] = "C16"

MIXIN = {"list.reverse", "list.iadd", "list.pop", "list.clear", "list.remove", "list.extend", "set.pop", "set.clear",
         "set.remove", "set.iand", "set.isub", "set.ixor", "set.ior", "setq.or", "setq.and", "setq.sub", "setq.xor",
         "setq.le", "setq.lt", "setq.ge", "setq.gt", "setq.eq", "setq.isdisjoint", "listq.index", "listq.count",
         "listq.reversed", "listq.contains", "listq.iter"}


def run_forest_case(case):
    res = pbt.CaseResult()

    def check(w, where):
        w.check_forest(where)

    # non-triviality: a mixin method applied to a non-empty collection
    hit = {"v": False}
    orig_apply = forest.World.apply

    def spy_apply(self, op):
        name = op["op"] + ("." + op["f"] if "f" in op else "")
        if name in MIXIN:
            if op["op"] in ("list", "listq"):
                nonempty = bool(self.order[op["i"] % self.n("ir")])
            else:
                kind = op["k"]
                nonempty = bool(self.children(forest.PARENT_KIND[kind], op["p"] % self.n(forest.PARENT_KIND[kind]), kind))
            if nonempty:
                hit["v"] = True
        return orig_apply(self, op)

    forest.World.apply = spy_apply
    try:
        c03_uuid.run_program(case, res, PREFIXES, check)
    finally:
        forest.World.apply = orig_apply
    if hit["v"]:
        res.tag("mixin-on-nonempty")
    res.nontrivial = hit["v"]
    return res


# ------------------------------------------------------------------ mapping

KEYS = [0, 1, 2, 3, 5, 8, (1 << 64) - 1]
N_BI = 3
N_EXPR = 6
_MISSING = object()


def run_map_case(case):
    g = c03_uuid._gt()
    res = pbt.CaseResult()
    sym = g.Symbol("s")
    exprs = [g.SymAddrConst(i, sym) for i in range(N_EXPR)]
    init = case.get("init", [])
    bis, models = [], []
    for b in range(N_BI):
        pairs = [(KEYS[k % len(KEYS)], e % N_EXPR) for k, e in (init[b] if b < len(init) else [])]
        model = dict(pairs)
        if b % 2 == 0:
            bi = g.ByteInterval(size=16, address=0x10 * b, symbolic_expressions={k: exprs[e] for k, e in model.items()})
        else:
            bi = g.ByteInterval(size=16, symbolic_expressions=[(k, exprs[e]) for k, e in model.items()])
        bis.append(bi)
        models.append(model)
    nontrivial = False

    def state_ok(where):
        for b, (bi, model) in enumerate(zip(bis, models)):
            m = bi.symbolic_expressions
            got = list(m.items())
            want = sorted(model.items())
            if len(got) != len(want) or any(gk != wk or gv is not exprs[wv] for (gk, gv), (wk, wv) in zip(got, want)):
                res.fail(
                    "C16:refine:map.contents",
                    "%s: interval %d holds %r, dict model %r" % (where, b, [(k, _ei(exprs, v)) for k, v in got], want),
                )
                return False
            if len(m) != len(model) or list(m) != sorted(model) or list(m.keys()) != sorted(model):
                res.fail("C16:refine:map.len-or-keys", "%s: interval %d" % (where, b))
                return False
        return True

    if not state_ok("constructor"):
        return res
    for n, op in enumerate(case["ops"]):
        f = op["f"]
        b = op.get("b", 0) % N_BI
        bi, model = bis[b], models[b]
        m = bi.symbolic_expressions
        k = KEYS[op.get("k", 0) % len(KEYS)]
        e = op.get("e", 0) % N_EXPR
        where = "op %d %s" % (n, f)
        res.tag("map:" + f)
        if f in ("pop", "popitem", "setdefault", "clear", "update", "assign", "assign-self") and model:
            nontrivial = True
        try:
            if f == "getitem":
                got, exc = _call(lambda: m[k])
                _expect(res, where, got, exc, exprs, model, k, KeyError)
            elif f == "setitem":
                m[k] = exprs[e]
                model[k] = e
            elif f == "delitem":
                got, exc = _call(lambda: m.__delitem__(k))
                if k in model:
                    del model[k]
                    if exc is not None:
                        res.fail("C16:refine:map.del-present-raises", "%s: %r" % (where, exc))
                elif not isinstance(exc, KeyError):
                    res.fail("C16:refine:map.del-missing-no-KeyError", "%s: %r" % (where, exc))
            elif f == "pop":
                if op.get("d"):
                    got, exc = _call(lambda: m.pop(k, "dflt"))
                    if k in model:
                        want = exprs[model.pop(k)]
                    else:
                        want = "dflt"
                    if exc is not None or got is not want:
                        res.fail("C16:refine:map.pop-default", "%s: %r %r" % (where, got, exc))
                else:
                    got, exc = _call(lambda: m.pop(k))
                    _expect(res, where, got, exc, exprs, model, k, KeyError)
                    model.pop(k, None)
            elif f == "popitem":
                got, exc = _call(lambda: m.popitem())
                if not model:
                    if not isinstance(exc, KeyError):
                        res.fail("C16:refine:map.popitem-empty-no-KeyError", "%s: %r %r" % (where, got, exc))
                elif exc is not None:
                    res.fail("C16:refine:map.popitem-raises", "%s: %r" % (where, exc))
                else:
                    if not (isinstance(got, tuple) and len(got) == 2 and got[0] in model and got[1] is exprs[model[got[0]]]):
                        res.fail("C16:refine:map.popitem-returns-nonmember", "%s: %r" % (where, got))
                    else:
                        del model[got[0]]
            elif f == "setdefault":
                got, exc = _call(lambda: m.setdefault(k, exprs[e]))
                want = exprs[model.setdefault(k, e)]
                if exc is not None or got is not want:
                    res.fail("C16:refine:map.setdefault", "%s: %r %r" % (where, got, exc))
            elif f == "get":
                got, exc = _call(lambda: m.get(k, "dflt"))
                want = exprs[model[k]] if k in model else "dflt"
                got2, exc2 = _call(lambda: m.get(k))
                want2 = exprs[model[k]] if k in model else None
                if exc is not None or got is not want or exc2 is not None or got2 is not want2:
                    res.fail("C16:refine:map.get", "%s: %r %r" % (where, got, exc))
            elif f == "contains":
                if (k in m) is not (k in model) or ("x" in m) is not False:
                    res.fail("C16:refine:map.contains", where)
                # keys of another type are absent keys, as for a dict
                for foreign in ("x", None, (1, 2), 1.5):
                    if m.get(foreign, "dflt") != "dflt" or m.pop(foreign, "dflt") != "dflt":
                        res.fail("C16:refine:map.foreign-key-found", "%s: %r" % (where, foreign))
                    got, exc = _call(lambda: m[foreign])
                    if not isinstance(exc, KeyError):
                        res.fail("C16:refine:map.foreign-key-no-KeyError", "%s: %r -> %r %r" % (where, foreign, got, exc))
                    got, exc = _call(lambda: m.__delitem__(foreign))
                    if not isinstance(exc, KeyError):
                        res.fail("C16:refine:map.foreign-key-del-no-KeyError", "%s: %r -> %r" % (where, foreign, exc))
            elif f == "views":
                vals = list(m.values())
                want = [exprs[model[kk]] for kk in sorted(model)]
                if len(vals) != len(want) or any(x is not y for x, y in zip(vals, want)):
                    res.fail("C16:refine:map.values", where)
                if len(m.items()) != len(model) or len(m.keys()) != len(model):
                    res.fail("C16:refine:map.view-len", where)
                if model:
                    k0 = sorted(model)[0]
                    if (k0 in m.keys()) is not True or ((k0, exprs[model[k0]]) in m.items()) is not True:
                        res.fail("C16:refine:map.view-contains", where)
            elif f == "eq":
                other_b = op.get("o", 0) % N_BI
                real_other = {kk: exprs[v] for kk, v in models[other_b].items()}
                for lhs, rhs, want in (
                    (m, real_other, model == models[other_b]),
                    (real_other, m, model == models[other_b]),
                    (m, bis[other_b].symbolic_expressions, model == models[other_b]),
                    (m, {kk: exprs[v] for kk, v in model.items()}, True),
                ):
                    if (lhs == rhs) is not want or (lhs != rhs) is not (not want):
                        res.fail("C16:refine:map.eq", "%s: %r" % (where, want))
            elif f == "clear":
                m.clear()
                model.clear()
            elif f == "update":
                src = op.get("src", "dict")
                pairs = [(KEYS[kk % len(KEYS)], ee % N_EXPR) for kk, ee in op.get("items", [])]
                if src == "dict":
                    m.update({kk: exprs[ee] for kk, ee in pairs})
                    model.update(dict(pairs))
                elif src == "pairs":
                    m.update([(kk, exprs[ee]) for kk, ee in pairs])
                    model.update(dict(pairs))
                elif src == "iterpairs":
                    m.update(iter([(kk, exprs[ee]) for kk, ee in pairs]))
                    model.update(dict(pairs))
                elif src == "boom":
                    # the argument fails after k pairs: the exception comes out;
                    # the mapping holds the consumed prefix (dict.update) or is
                    # unchanged
                    nk = op.get("bk", 0) % (len(pairs) + 1)

                    class Boom(Exception):
                        pass

                    def gen():
                        for kk, ee in pairs[:nk]:
                            yield (kk, exprs[ee])
                        raise Boom()

                    res.tag("map:failed-update")
                    try:
                        m.update(gen())
                        res.fail("C16:refine:map.failed-update-exception-swallowed", where)
                    except Boom:
                        pass
                    trial = dict(model)
                    trial.update(dict(pairs[:nk]))
                    real = {kk: _ei(exprs, v) for kk, v in m.items()}
                    if real == trial:
                        model.update(dict(pairs[:nk]))
                    elif real != model:
                        res.fail("C16:refine:map.failed-update-contents", "%s: %r, before %r, prefix %r" % (where, real, model, pairs[:nk]))
                        return res
                elif src == "other":
                    ob = op.get("o", 0) % N_BI
                    m.update(bis[ob].symbolic_expressions)
                    model.update(dict(models[ob]))
                else:
                    m.update(m)
            elif f in ("assign", "assign-self"):
                src = op.get("src", "dict") if f == "assign" else "self"
                pairs = [(KEYS[kk % len(KEYS)], ee % N_EXPR) for kk, ee in op.get("items", [])]
                if src == "dict":
                    bi.symbolic_expressions = {kk: exprs[ee] for kk, ee in pairs}
                    new = dict(pairs)
                elif src == "other":
                    ob = op.get("o", 0) % N_BI
                    bi.symbolic_expressions = bis[ob].symbolic_expressions
                    new = dict(models[ob])
                elif src == "copy":
                    bi.symbolic_expressions = dict(bi.symbolic_expressions)
                    new = dict(model)
                else:
                    bi.symbolic_expressions = bi.symbolic_expressions
                    new = dict(model)
                models[b] = new
                if bi.symbolic_expressions is not m and False:
                    pass
            else:
                raise ValueError(f)
        except pbt.CaseTimeout:
            raise
        except Exception as ex:
            res.fail(pbt.exception_bucket("C16:refine:map." + f, ex), "%s: %r" % (where, ex))
            return res
        if res.failures or not state_ok(where):
            return res
    res.nontrivial = nontrivial
    if nontrivial:
        res.tag("mixin-on-nonempty")
    return res


def _ei(exprs, v):
    for i, x in enumerate(exprs):
        if x is v:
            return i
    return repr(v)


def _call(fn):
    try:
        return fn(), None
    except Exception as e:  # noqa
        return None, e


def _expect(res, where, got, exc, exprs, model, k, exc_type):
    if k in model:
        if exc is not None or got is not exprs[model[k]]:
            res.fail("C16:refine:map.lookup-present", "%s: %r %r" % (where, got, exc))
    elif not isinstance(exc, exc_type):
        res.fail("C16:refine:map.missing-key-no-" + exc_type.__name__, "%s: %r %r" % (where, got, exc))


def run_case(case):
    if case.get("kind") == "map":
        return run_map_case(case)
    return run_forest_case(case)


def map_strategy():
    from hypothesis import strategies as st

    k = st.integers(0, len(KEYS) - 1)
    e = st.integers(0, N_EXPR - 1)
    b = st.integers(0, N_BI - 1)
    items = st.lists(st.tuples(k, e).map(list), max_size=4)
    ops = {}
    for f in ("getitem", "setitem", "delitem", "popitem", "setdefault", "get", "contains", "views", "clear"):
        ops[f] = progs.op("m", f=st.just(f), b=b, k=k, e=e)
    ops["pop"] = progs.op("m", f=st.just("pop"), b=b, k=k, d=st.booleans())
    ops["eq"] = progs.op("m", f=st.just("eq"), b=b, o=b)
    ops["update"] = progs.op("m", f=st.just("update"), b=b, o=b, items=items, src=st.sampled_from(["dict", "pairs", "iterpairs", "other", "self", "boom"]), bk=st.integers(0, 4))
    ops["assign"] = progs.op("m", f=st.just("assign"), b=b, o=b, items=items, src=st.sampled_from(["dict", "other", "copy"]))
    ops["assign-self"] = progs.op("m", f=st.just("assign-self"), b=b)
    init = st.lists(st.lists(st.tuples(k, e).map(list), max_size=4), min_size=N_BI, max_size=N_BI)
    return st.fixed_dictionaries({"kind": st.just("map"), "init": init, "ops": progs.programs(ops, max_len=25)})


def strategy():
    from hypothesis import strategies as st

    f = forestgen.cases(max_len=40, queries=True, load=False)
    # a quarter of the cases exercise one interface only, densely
    lists = forestgen.cases(max_len=30, queries=True, load=False, only=["list.", "listq.", "setparent"], kinds=["mod"])
    sets = forestgen.cases(max_len=30, queries=True, load=False, only=["set.", "setq.", "setparent"])
    return st.one_of(f, f, f, lists, lists, sets, map_strategy(), map_strategy())


def run_job(job):
    return pbt.run_hypothesis(strategy(), run_case, prefix=ID, n_examples=job["n"], seed=job["seed"],
                              max_shrink_evals=job.get("shrink", 400))


def replay(doc):
    return run_case(doc["case"])


def jobs(tier, seed):
    n, shards = (8000, 8) if tier == "quick" else (400000, 16)
    return [{"name": "hist-%d" % k, "kind": "hist", "n": n // shards, "seed": seed * 1000 + 700 + k,
             "shrink": 400 if tier == "quick" else 2000} for k in range(shards)]
