"""C02: writer and reader each agree with the protobuf schema, field by field.

Two one-directional differentials against vlib.refmsg (an independent
rendition of the schema that only knows the generated message classes):

  writer: build an IR from a spec through the API, save, check the 8-byte
          header, parse the rest with the generated class and compare the
          canonical message with refmsg.from_spec(spec);
  reader: take refmsg.from_spec(spec), apply message-level variations no
          Python writer produces (address without presence flag, duplicated
          section flags / attribute flags / edges, arbitrary vertex list,
          reordered repeated fields), serialise with the protobuf runtime,
          load, and compare snapshot(ir) with refmsg.expected_snapshot(msg).
Both run under upb and under the pure-Python protobuf backend.
"""

import io

from vlib import irbuild, pbt, refmsg, snapshot, spec as specmod, spectags

ID = "C02"
LEVEL = "exploration"
RULE = (
    "cases: G-IR specs (see C01) used twice: (writer) realised through the API and saved; (reader) turned into a "
    "message by the reference writer, varied at message level (has_address=false with non-zero address, duplicate "
    "section flags / attribute flags / edges, arbitrary cfg.vertices, rotated repeated fields) and loaded; every "
    "schema enum number is drawn from the built descriptors; non-trivial = the spec has >= 1 module with a "
    "section, an interval, a block, a symbol and >= 2 non-default enum values; distinct = SHA-1 of canonical JSON"
)
ASSUMPTIONS = [
    "symbol referents and expression symbols are closed inside each module, entry points inside the IR (cross-module symbol references are not claimed: the loader resolves them module by module, and C01 excludes them from a self-contained IR)",
    "the protobuf runtime's own parse/serialise is trusted",
]
REQUIRED_TAGS = {
    "quick": ["dir:writer", "dir:reader", "mut:addr_without_flag", "mut:vertices", "b:address-0", "b:value-0"],
    "thorough": ["dir:writer", "dir:reader", "mut:addr_without_flag", "mut:vertices", "b:address-0", "b:value-0"],
}

MUTS = ["addr_without_flag", "dup_flag", "dup_attr", "vertices", "rotate", "dup_edge", "module_rotate"]


def _gt():
    import gtirb

    return gtirb


def header():
    return b"GTIRB\x00\x00" + bytes([refmsg.proto_version()])


def apply_muts(msg, muts, res):
    for mu in muts:
        kind, k = mu["m"], mu["k"]
        ivs = [pi for pm in msg.modules for ps in pm.sections for pi in ps.byte_intervals]
        secs = [ps for pm in msg.modules for ps in pm.sections]
        exprs = [pi.symbolic_expressions[o] for pi in ivs for o in sorted(pi.symbolic_expressions)]
        if kind == "addr_without_flag" and ivs:
            pi = ivs[k % len(ivs)]
            pi.has_address = False
            pi.address = (k % 1000) + 1
            res.tag("mut:addr_without_flag")
        elif kind == "dup_flag" and secs:
            ps = secs[k % len(secs)]
            ps.section_flags.append(ps.section_flags[0] if len(ps.section_flags) else (k % 7))
            res.tag("mut:dup_flag")
        elif kind == "dup_attr" and exprs:
            pe = exprs[k % len(exprs)]
            pe.attribute_flags.append(pe.attribute_flags[0] if len(pe.attribute_flags) else 5000 + k % 7)
            res.tag("mut:dup_attr")
        elif kind == "vertices":
            del msg.cfg.vertices[:]
            if k % 3 == 1:
                msg.cfg.vertices.append(bytes([k % 256]) * 16)
                msg.cfg.vertices.append(bytes([k % 256]) * 16)
            elif k % 3 == 2:
                msg.cfg.vertices.append(msg.uuid)
            res.tag("mut:vertices")
        elif kind == "rotate":
            for pm in msg.modules:
                for fld in (pm.sections, pm.symbols, pm.proxies):
                    _rotate(fld, k)
                for ps in pm.sections:
                    _rotate(ps.byte_intervals, k)
                    for pi in ps.byte_intervals:
                        _rotate(pi.blocks, k)
            _rotate(msg.cfg.edges, k)
            res.tag("mut:rotate")
        elif kind == "dup_edge" and len(msg.cfg.edges):
            e = msg.cfg.edges[k % len(msg.cfg.edges)]
            msg.cfg.edges.add().CopyFrom(e)
            res.tag("mut:dup_edge")
        elif kind == "module_rotate" and len(msg.modules) > 1:
            _rotate(msg.modules, 1)
            res.tag("mut:module_rotate")


def _rotate(fld, k):
    items = [type(x)() for x in fld]
    for dst, src in zip(items, fld):
        dst.CopyFrom(src)
    if not items:
        return
    k %= len(items)
    items = items[k:] + items[:k]
    del fld[:]
    for it in items:
        fld.add().CopyFrom(it)


def nontrivial(r, t):
    ok = any(mi["blocks"] and mi["symbols"] for mi in r.mods)
    nondefault = sum(
        1
        for mi in r.mods
        for f in ("isa", "file_format", "byte_order")
        if mi["spec"][f] != 0
    )
    return ok and nondefault >= 2


def run_case(case):
    g = _gt()
    res = pbt.CaseResult()
    spec = case["spec"]
    r = specmod.validate(spec)
    if not spectags.KNOWN_ATTRS:
        spectags.init_known()
    t = spectags.tags(r)
    res.tag(*sorted(t))
    res.nontrivial = nontrivial(r, t)
    if case["dir"] == "writer":
        res.tag("dir:writer")
        try:
            B = irbuild.build(g, spec, r)
            buf = io.BytesIO()
            B.ir.save_protobuf_file(buf)
        except irbuild.BuildFailure as e:
            res.fail("C02:enum-constant-missing-or-api-refusal", str(e))
            return res
        except pbt.CaseTimeout:
            raise
        except Exception as e:
            res.fail(pbt.exception_bucket("C02:writer", e), repr(e))
            return res
        data = buf.getvalue()
        if data[:8] != header():
            res.fail("C02:header", "%r != %r" % (data[:8], header()))
        from gtirb.proto import IR_pb2

        got = IR_pb2.IR()
        try:
            got.ParseFromString(data[8:])
        except Exception as e:
            res.fail("C02:written-message-unparsable", repr(e))
            return res
        want = refmsg.from_spec(r, B.module_order)
        d = snapshot.diff(refmsg.canon_msg(want), refmsg.canon_msg(got))
        if d:
            res.fail("C02:written-message-differs-from-schema-rendition", d)
    else:
        res.tag("dir:reader")
        order = [r.uuid(mi["spec"]) for mi in r.mods]
        msg = refmsg.from_spec(r, order)
        apply_muts(msg, case.get("muts", []), res)
        want = refmsg.expected_snapshot(msg)
        data = header() + msg.SerializeToString()
        try:
            ir = g.IR.load_protobuf_file(io.BytesIO(data))
        except pbt.CaseTimeout:
            raise
        except Exception as e:
            res.fail(pbt.exception_bucket("C02:reader-rejects-valid-message", e), repr(e))
            return res
        d = snapshot.diff(want, snapshot.snapshot(g, ir))
        if d:
            res.fail("C02:loaded-ir-differs-from-message", d)
    return res


def strategy():
    from hypothesis import strategies as st

    mut = st.fixed_dictionaries({"m": st.sampled_from(MUTS), "k": st.integers(0, 10**6)})
    return st.fixed_dictionaries(
        {
            "spec": specmod.specs(),
            "dir": st.sampled_from(["writer", "reader"]),
            "muts": st.lists(mut, max_size=3),
        }
    )


def run_job(job):
    return pbt.run_hypothesis(strategy(), run_case, prefix=ID, n_examples=job["n"], seed=job["seed"],
                              max_shrink_evals=job.get("shrink", 400))


def replay(doc):
    return run_case(doc["case"])


def jobs(tier, seed):
    n, shards = (6000, 8) if tier == "quick" else (240000, 16)
    out = []
    for k in range(shards):
        job = {"name": "msgs-%d" % k, "kind": "msgs", "n": n // shards, "seed": seed * 1000 + k,
               "shrink": 400 if tier == "quick" else 2000}
        if k % 2 == 1:
            job["env"] = {"PROTOCOL_BUFFERS_PYTHON_IMPLEMENTATION": "python"}
            job["n"] = max(50, job["n"] // 2)
        out.append(job)
    return out
