"""C19: interval byte storage and block views stay consistent.

Reference model: a bytearray + declared size + address, and per block
(offset, size).  After every operation of a generated program the model is
compared with the real ByteInterval / blocks; save -> load must succeed and
reproduce size and contents.
"""

import io
import uuid

from vlib import pbt, progs

ID = "C19"
LEVEL = "exploration"
RULE = (
    "cases: Hypothesis programs = one constructor call (contents / size / initialized_size in all "
    "combinations incl. invalid ones, address None/0/k/near 2^64) followed by <= 30 ops: size=n (grow, "
    "shrink above/to/below the stored byte count, 0), initialized_size=n (below, at and above size), in-place byte and "
    "same-length slice edits, block offset/size edits (inside, straddling and beyond the stored bytes), "
    "address edits, boundary probes of contains_offset/contains_address, save+load; non-trivial = the "
    "history shrinks size below the stored byte count or has a block partly beyond the stored bytes; "
    "distinct = SHA-1 of canonical JSON"
)
ASSUMPTIONS = [
    "initialized_size assignments above the current size must be refused with ValueError (state unchanged) or make the size follow",
    "content edits keep the length (in-place item / same-length slice assignment) or replace the contents by bytes / bytearray no longer than size",
]
REQUIRED_TAGS = {
    "quick": ["isize-above-size", "shrink-below-stored", "block-beyond-stored", "ctor-invalid", "op:saveload"],
    "thorough": ["isize-above-size", "shrink-below-stored", "block-beyond-stored", "ctor-invalid", "op:saveload"],
}

NBLOCKS = 4
BIG = (1 << 64) - 1


def _gt():
    import gtirb

    return gtirb


def U(i):
    return uuid.UUID(int=i)


class Model:
    def __init__(self):
        self.data = bytearray()
        self.size = 0
        self.address = None
        self.blocks = []  # [offset, size, kind]


def build(ctor, res):
    """Run the constructor; returns (ir, bi, blocks, model) or None."""
    g = _gt()
    contents = bytes(ctor.get("contents") or [])
    has_contents = ctor.get("contents") is not None
    size = ctor.get("size")
    isize = ctor.get("isize")
    address = ctor.get("address")
    eff_size = len(contents) if size is None else size
    eff_isize = len(contents) if isize is None else isize
    kwargs = {"uuid": U(4), "address": address}
    if has_contents:
        kwargs["contents"] = contents if ctor.get("ctype", 0) == 0 else bytearray(contents)
    if size is not None:
        kwargs["size"] = size
    if isize is not None:
        kwargs["initialized_size"] = isize
    try:
        bi = g.ByteInterval(**kwargs)
        raised = None
    except ValueError as e:
        raised = e
    if eff_isize > eff_size:
        res.tag("ctor-invalid")
        if raised is None:
            res.fail("C19:ctor-accepts-more-bytes-than-size", "%r" % (ctor,))
        return None
    if raised is not None:
        res.fail("C19:ctor-rejects-valid", "%r: %r" % (ctor, raised))
        return None
    m = Model()
    m.data = bytearray(contents[:eff_isize]) + bytearray(max(0, eff_isize - len(contents)))
    m.size = eff_size
    m.address = address
    ir = g.IR(uuid=U(1))
    mod = g.Module(name="m", uuid=U(2), ir=ir)
    sec = g.Section(name="s", uuid=U(3), module=mod)
    bi.section = sec
    blocks = []
    for i, (off, sz, kind) in enumerate(ctor.get("blocks", [])[:NBLOCKS]):
        cls = g.CodeBlock if kind % 2 == 0 else g.DataBlock
        b = cls(uuid=U(10 + i), offset=off, size=sz, byte_interval=bi)
        blocks.append(b)
        m.blocks.append([off, sz, kind % 2])
    return ir, bi, blocks, m


def check(bi, blocks, m, res, where, probes=()):
    if bi.initialized_size != len(bi.contents) or len(bi.contents) != len(m.data):
        res.fail(
            "C19:initialized_size",
            "%s: initialized_size=%r len(contents)=%d model=%d" % (where, bi.initialized_size, len(bi.contents), len(m.data)),
        )
        return
    if bytes(bi.contents) != bytes(m.data):
        res.fail("C19:contents", "%s: %r != %r" % (where, bytes(bi.contents), bytes(m.data)))
        return
    if bi.size != m.size:
        res.fail("C19:size", "%s: size=%r model=%r" % (where, bi.size, m.size))
    if len(bi.contents) > bi.size:
        res.fail("C19:stored-bytes-exceed-size", "%s: %d stored bytes, size %d" % (where, len(bi.contents), bi.size))
    if bi.address != m.address:
        res.fail("C19:address", "%s: %r != %r" % (where, bi.address, m.address))
    for i, b in enumerate(blocks):
        off, sz, _ = m.blocks[i]
        want_addr = None if m.address is None else m.address + off
        if b.address != want_addr:
            res.fail("C19:block-address", "%s: block %d: %r != %r" % (where, i, b.address, want_addr))
        got = bytes(b.contents)
        want = bytes(m.data[off : off + sz])
        if got != want:
            res.fail("C19:block-contents", "%s: block %d (off %d size %d): %r != %r" % (where, i, off, sz, got, want))
        pts = {off - 1, off, off + 1, off + sz - 1, off + sz, off + sz + 1, 0, len(m.data)} | set(probes)
        for p in pts:
            want_in = off <= p < off + sz
            if bool(b.contains_offset(p)) is not want_in or type(b.contains_offset(p)) is not bool:
                res.fail("C19:contains_offset", "%s: block %d (off %d size %d) p=%d -> %r" % (where, i, off, sz, p, b.contains_offset(p)))
            for a in ((p,) if m.address is None else (m.address + p, p)):
                want_a = m.address is not None and off <= a - m.address < off + sz
                r = b.contains_address(a)
                if bool(r) is not want_a or type(r) is not bool:
                    res.fail("C19:contains_address", "%s: block %d (addr %r off %d size %d) a=%d -> %r" % (where, i, m.address, off, sz, a, r))


def run_case(case):
    g = _gt()
    res = pbt.CaseResult()
    built = build(case["ctor"], res)
    if built is None:
        # a rejected constructor is a complete (trivial) case
        return res
    ir, bi, blocks, m = built
    check(bi, blocks, m, res, "ctor")
    if res.failures:
        return res
    nontrivial = False

    def beyond():
        return any(sz > 0 and off < len(m.data) < off + sz or (sz > 0 and off >= len(m.data)) for off, sz, _ in m.blocks)

    for n, op in enumerate(case["ops"]):
        name = op["op"]
        where = "op %d %s %r" % (n, name, {k: v for k, v in op.items() if k != "op"})
        res.tag("op:" + name)
        probes = ()
        try:
            if name == "size":
                v = op["n"]
                if v < len(m.data):
                    res.tag("shrink-below-stored")
                    nontrivial = True
                    del m.data[v:]
                m.size = v
                bi.size = v
            elif name == "isize":
                v = op["n"]
                if v > m.size:
                    # more initialized bytes than the interval is long: refused
                    # (state unchanged, as the constructor refuses it) or the
                    # size follows; stored bytes beyond size are never right
                    res.tag("isize-above-size")
                    nontrivial = True
                    try:
                        bi.initialized_size = v
                        refused = False
                    except ValueError:
                        refused = True
                    if not refused:
                        if bi.size >= v and len(bi.contents) == v:
                            m.size = bi.size
                            m.data += bytes(v - len(m.data))
                        else:
                            res.fail(
                                "C19:initialized_size-above-size-accepted",
                                "%s: size=%r, initialized_size = %d accepted: %d stored bytes, size %r"
                                % (where, m.size, v, len(bi.contents), bi.size),
                            )
                            return res
                else:
                    if v > len(m.data):
                        m.data += bytes(v - len(m.data))
                    else:
                        del m.data[v:]
                    bi.initialized_size = v
            elif name == "byte":
                if m.data and isinstance(bi.contents, bytearray):
                    i = op["i"] % len(m.data)
                    m.data[i] = op["b"] % 256
                    bi.contents[i] = op["b"] % 256
            elif name == "slice":
                if m.data and isinstance(bi.contents, bytearray):
                    i = op["i"] % len(m.data)
                    j = min(len(m.data), i + op["k"] % 5)
                    fill = bytes([(op["b"] + x) % 256 for x in range(j - i)])
                    m.data[i:j] = fill
                    bi.contents[i:j] = fill
            elif name == "setcontents":
                # the whole contents replaced by assignment (immutable bytes or a
                # bytearray), never longer than the declared size
                new = bytes((op["b"] + x) % 256 for x in range(min(op["n"], m.size)))
                bi.contents = new if op.get("imm") else bytearray(new)
                m.data = bytearray(new)
                res.tag("contents-assigned-" + ("bytes" if op.get("imm") else "bytearray"))
            elif name == "boff":
                if blocks:
                    k = op["k"] % len(blocks)
                    m.blocks[k][0] = op["n"]
                    blocks[k].offset = op["n"]
            elif name == "bsize":
                if blocks:
                    k = op["k"] % len(blocks)
                    m.blocks[k][1] = op["n"]
                    blocks[k].size = op["n"]
            elif name == "addr":
                m.address = op["a"]
                bi.address = op["a"]
            elif name == "probe":
                probes = tuple(op["ps"])
            elif name == "saveload":
                buf = io.BytesIO()
                try:
                    ir.save_protobuf_file(buf)
                except Exception as e:
                    res.fail("C19:save-raises:" + type(e).__name__, "%s: %r" % (where, e))
                    return res
                try:
                    ir2 = g.IR.load_protobuf_file(io.BytesIO(buf.getvalue()))
                except Exception as e:
                    res.fail("C19:load-rejects-saved-interval:" + type(e).__name__, "%s: %r" % (where, e))
                    return res
                bi2 = ir2.get_by_uuid(U(4))
                if not isinstance(bi2, g.ByteInterval):
                    res.fail("C19:interval-lost-by-load", where)
                    return res
                blocks2 = [ir2.get_by_uuid(b.uuid) for b in blocks]
                if any(b is None for b in blocks2):
                    res.fail("C19:block-lost-by-load", where)
                    return res
                ir, bi, blocks = ir2, bi2, blocks2
            else:
                raise ValueError(name)
        except pbt.CaseTimeout:
            raise
        except Exception as e:
            res.fail(pbt.exception_bucket("C19:op-" + name, e), "%s: %r" % (where, e))
            return res
        if beyond():
            res.tag("block-beyond-stored")
            nontrivial = True
        check(bi, blocks, m, res, where, probes)
        if res.failures:
            return res
    res.nontrivial = nontrivial
    return res


def strategy():
    from hypothesis import strategies as st

    small = st.integers(0, 12)
    sizes = st.one_of(small, small, st.sampled_from([0, 1, 16, 255, 256, 1 << 32, 1 << 63, BIG]))
    addr = st.one_of(st.none(), st.sampled_from([0, 1, 7, 1 << 32, BIG - 20, BIG]), small)
    contents = st.one_of(st.none(), st.lists(st.integers(0, 255), max_size=12))
    blk = st.tuples(st.integers(0, 14), st.integers(0, 8), st.integers(0, 1)).map(list)
    ctor = st.fixed_dictionaries(
        {
            "contents": contents,
            "size": st.one_of(st.none(), small, sizes),
            "isize": st.one_of(st.none(), st.none(), small),
            "address": addr,
            "ctype": st.integers(0, 1),
            "blocks": st.lists(blk, max_size=NBLOCKS),
        }
    )
    ops = {
        "size": progs.op("size", n=sizes),
        "isize": progs.op("isize", n=small),
        "byte": progs.op("byte", i=st.integers(0, 30), b=st.integers(0, 255)),
        "slice": progs.op("slice", i=st.integers(0, 30), k=st.integers(0, 4), b=st.integers(0, 255)),
        "setcontents": progs.op("setcontents", n=st.integers(0, 12), b=st.integers(0, 255), imm=st.booleans()),
        "boff": progs.op("boff", k=st.integers(0, 3), n=st.one_of(st.integers(0, 14), st.sampled_from([1 << 32, BIG - 3]))),
        "bsize": progs.op("bsize", k=st.integers(0, 3), n=st.one_of(st.integers(0, 9), st.sampled_from([1 << 32, BIG]))),
        "addr": progs.op("addr", a=addr),
        "probe": progs.op("probe", ps=st.lists(st.one_of(st.integers(-2, 20), st.sampled_from([BIG, 1 << 63, 1 << 64])), max_size=3)),
        "saveload": progs.op("saveload"),
    }
    return st.fixed_dictionaries({"ctor": ctor, "ops": progs.programs(ops, max_len=30)})


def run_job(job):
    return pbt.run_hypothesis(strategy(), run_case, prefix=ID, n_examples=job["n"], seed=job["seed"],
                              max_shrink_evals=job.get("shrink", 400))


def replay(doc):
    return run_case(doc["case"])


def jobs(tier, seed):
    n, shards = (8000, 8) if tier == "quick" else (600000, 16)
    return [{"name": "hist-%d" % k, "kind": "hist", "n": n // shards, "seed": seed * 1000 + k,
             "shrink": 400 if tier == "quick" else 2000} for k in range(shards)]
