"""C07: every AuxData value survives encode -> decode unchanged.

Oracle: round trip with an independently computed expectation
(vlib.auxref.expected_python: float32 rounding by integer arithmetic, attached
UUIDs -> node objects, foreign UUIDs -> uuid.UUID), structural comparison with
floats bit for bit and nodes by identity; exact consumption measured with a
probe codec registered through the public `Serialization.codecs` mapping; the
same value pushed through AuxData + IR save/load.
"""

import io

from vlib import auxgen, auxref, pbt, smallir, tngrammar

ID = "C07"
LEVEL = "exploration"
RULE = (
    "cases: Hypothesis-generated (type tree, value) pairs from the AuxData grammar (all leaf types, "
    "sequence/set/mapping/tuple/variant to depth 4; integers biased to both bounds, Unicode strings "
    "with multi-byte/NUL/delimiter characters, floats incl. NaN/inf/-0/subnormals/ties, UUID and Offset "
    "leaves naming attached and foreign nodes) plus an exhaustive table of every integer type x 7 "
    "boundary values x 14 container contexts; non-trivial = type depth >= 2 and the value contains a "
    "non-ASCII string, a boundary integer or an attached-node leaf; distinct = SHA-1 of canonical JSON"
)
ASSUMPTIONS = [
    "lone surrogates are not Unicode scalar values and are excluded from strings",
    "NaN is excluded from set elements and mapping keys only; 'float' values are doubles whose float32 rounding is finite",
    "set elements / mapping keys range over every type with a hashable Python form (leaves, tuples, sequences as tuples, sets as frozensets, variants); a mapping cannot be a key (Python has no hashable dict, so the API has no value of such a type)",
]
REQUIRED_TAGS = {
    "quick": ["key-type:sequence", "key-type:set", "key-type:variant", "disturbed-serializer", "has:nonascii", "has:node", "has:boundary-int", "type:variant", "type:mapping"],
    "thorough": ["key-type:sequence", "key-type:set", "key-type:variant", "disturbed-serializer", "has:nonascii", "has:node", "has:boundary-int", "type:variant", "type:mapping"],
}

SENTINEL = 0x0123456789ABCDEF


def _gt():
    import gtirb

    return gtirb


def type_tags(tree, out, in_key=False):
    out.add("type:" + tree[0])
    if in_key and tree[0] in ("sequence", "set", "variant"):
        out.add("key-type:" + tree[0])
    for i, s in enumerate(tree[1]):
        type_tags(s, out, in_key or tree[0] == "set" or (tree[0] == "mapping" and i == 0))


def value_tags(tree, jv, out):
    name, subs = tree
    if name in auxref.INT_TYPES:
        lo, hi = auxref.int_range(name)
        if jv in (lo, hi):
            out.add("has:boundary-int")
    elif name == "string":
        if any(ord(c) > 127 for c in jv):
            out.add("has:nonascii")
        if "\x00" in jv:
            out.add("has:nul")
    elif name in ("UUID", "Offset"):
        h = jv["u"] if name == "UUID" else jv["o"]
        out.add("has:node" if h in auxgen.ATTACHED else "has:foreign-uuid")
    elif name in ("float", "double"):
        b = int(jv["f"], 16)
        if auxref.is_nan_bits64(b):
            out.add("has:nan")
        if name == "float" and auxref.f32_bits_to_f64_bits(auxref.f64_to_f32_bits(b)) != b:
            out.add("has:float32-rounding")
    elif name in ("sequence", "set"):
        if not jv:
            out.add("has:empty-container")
        for x in jv:
            value_tags(subs[0], x, out)
    elif name == "mapping":
        if not jv:
            out.add("has:empty-container")
        for k, v in jv:
            value_tags(subs[0], k, out)
            value_tags(subs[1], v, out)
    elif name == "tuple":
        for s, x in zip(subs, jv):
            value_tags(s, x, out)
    elif name == "variant":
        value_tags(subs[jv["i"]], jv["v"], out)


def make_probe(gtirb, log):
    from gtirb import serialization as ser

    class Probe(ser.Codec):
        @staticmethod
        def decode(raw_bytes, *, serialization=None, subtypes=(), get_by_uuid=None):
            log.append(raw_bytes.tell())
            return None

        @staticmethod
        def encode(out, item, *, serialization=None, subtypes=()):
            return None

    return Probe


def disturb(gtirb, ser, k):
    """calls that must leave a Serialization instance as good as new: encodes
    that fail part-way, decodes of types with unknown codecs, decodes of
    truncated input.  Whatever they raise is irrelevant here."""
    attempts = [
        lambda: ser.encode(io.BytesIO(), [1, 2, 300], "sequence<uint8_t>"),
        lambda: ser.encode(io.BytesIO(), ("a", 5), "tuple<string,string>"),
        lambda: ser.encode(io.BytesIO(), {"k": object()}, "mapping<string,uint8_t>"),
        lambda: ser.encode(io.BytesIO(), {1, "x"}, "set<uint16_t>"),
        lambda: ser.encode(io.BytesIO(), gtirb.Variant(0, "s"), "variant<uint8_t,string>"),
        lambda: ser.decode(b"\x01" + b"\x00" * 7 + b"ab", "mapping<string,foo>"),
        lambda: ser.decode(b"\x00" * 8, "sequence<bar<uint8_t>>"),
        lambda: ser.decode(b"\x00" * 8, "set<tuple<baz,uint64_t>>"),
        lambda: ser.decode(b"\x00" * 16, "tuple<qux,variant<uint8_t>>"),
        lambda: ser.decode(b"\x00" * 8, "variant<foo,string>"),
        lambda: ser.decode(b"\x05", "sequence<uint64_t>"),
        lambda: ser.encode(io.BytesIO(), "x", "a<b"),
    ]
    for j in range(3):
        try:
            attempts[(k + 5 * j) % len(attempts)]()
        except Exception:  # noqa
            pass


def run_case(case):
    gtirb = _gt()
    res = pbt.CaseResult()
    tree = auxgen.as_tree(case["t"])
    jv = case["v"]
    auxgen.validate(tree, jv)
    tname = tngrammar.to_string(tree)
    tags = set()
    type_tags(tree, tags)
    value_tags(tree, jv, tags)
    res.tag(*sorted(tags))
    res.nontrivial = auxgen.depth(tree) >= 2 and auxgen.interesting(tree, jv)

    ir = smallir.make(gtirb)
    lookup = ir.get_by_uuid
    want = auxref.expected_python(tree, jv, gtirb, lookup)

    for prefer_uuid in (False, True):
        pv = auxref.to_python(tree, jv, gtirb, lookup, prefer_uuid=prefer_uuid)
        # a fresh serializer, or the process-wide one every AuxData uses; either
        # may have seen failing / foreign calls before (no state may survive them)
        ser = gtirb.AuxData.serializer if case.get("shared") else gtirb.Serialization()
        if case.get("disturb") is not None:
            res.tag("disturbed-serializer")
            disturb(gtirb, ser, case["disturb"])
        buf = io.BytesIO()
        try:
            ser.encode(buf, pv, tname)
        except Exception as e:
            res.fail("C07:encode-raises:" + type(e).__name__, "%s %r: %r" % (tname, pv, e))
            return res
        data = buf.getvalue()
        try:
            got = ser.decode(data, tname, lookup)
        except Exception as e:
            res.fail("C07:decode-raises:" + type(e).__name__, "%s %r: %r" % (tname, pv, e))
            return res
        msg = auxref.same(tree, want, got, gtirb)
        if msg:
            res.fail("C07:roundtrip-differs", "%s: %s" % (tname, msg))
            return res
        if prefer_uuid:
            break
        # decode from a stream object and with trailing junk
        try:
            got2 = ser.decode(io.BytesIO(data + b"\xa5\x5a\xff"), tname, lookup)
            msg = auxref.same(tree, want, got2, gtirb)
        except Exception as e:
            msg = "raised %r" % (e,)
        if msg:
            res.fail("C07:trailing-bytes-change-result", "%s: %s" % (tname, msg))
        # exact consumption: probe codec behind the value
        log = []
        ser2 = gtirb.Serialization()
        ser2.codecs["__probe"] = make_probe(gtirb, log)
        try:
            got3 = ser2.decode(data + b"\x00" * 3, "tuple<%s,__probe>" % tname, lookup)
        except Exception as e:
            res.fail("C07:probe-decode-raises:" + type(e).__name__, "%s: %r" % (tname, e))
        else:
            if log != [len(data)]:
                res.fail(
                    "C07:consumption",
                    "%s: decoder consumed %r bytes, encoder produced %d" % (tname, log, len(data)),
                )
            elif auxref.same(tree, want, got3[0], gtirb):
                res.fail("C07:probe-value", tname)
        # sentinel behind the value, through the stock codecs only
        ser3 = gtirb.Serialization()
        b3 = io.BytesIO()
        try:
            ser3.encode(b3, (pv, SENTINEL), "tuple<%s,uint64_t>" % tname)
            g3 = ser3.decode(b3.getvalue(), "tuple<%s,uint64_t>" % tname, lookup)
            if type(g3) is not tuple or len(g3) != 2 or g3[1] != SENTINEL:
                res.fail("C07:misaligned-after-value", "%s: %r" % (tname, g3))
            elif auxref.same(tree, want, g3[0], gtirb):
                res.fail("C07:nested-value-differs", tname)
        except Exception as e:
            res.fail("C07:nested-raises:" + type(e).__name__, "%s: %r" % (tname, e))

    # the node lookup reflects the IR as it is at decode time: detach the module
    # (only the IR itself stays attached), decode, re-attach, decode again
    ser = gtirb.Serialization()
    buf = io.BytesIO()
    ser.encode(buf, auxref.to_python(tree, jv, gtirb, lookup), tname)
    data = buf.getvalue()
    mod = ir.modules[0]
    full = {n.uuid: n for n in [ir, mod] + list(mod.sections) + list(mod.proxies) + list(mod.symbols)
            + list(mod.byte_intervals) + list(mod.byte_blocks)}
    for phase in ("detached", "re-attached"):
        if phase == "detached":
            mod.ir = None
            table = {ir.uuid: ir}
        else:
            mod.ir = ir
            table = full
        want_p = auxref.expected_python(tree, jv, gtirb, table.get)
        try:
            got_p = ser.decode(data, tname, ir.get_by_uuid)
            msg = auxref.same(tree, want_p, got_p, gtirb)
        except Exception as e:
            msg = "raised %r" % (e,)
        if msg:
            res.fail("C07:lookup-not-current-after-ir-change", "%s, module %s: %s" % (tname, phase, msg))
            break
    if mod.ir is not ir:
        mod.ir = ir
    # AuxData on an IR, through save / load
    pv = auxref.to_python(tree, jv, gtirb, lookup)
    ir.aux_data["t"] = gtirb.AuxData(pv, tname)
    ir.modules[0].aux_data["t"] = gtirb.AuxData(pv, tname)
    try:
        ir2 = smallir.load(gtirb, smallir.save(ir))
    except Exception as e:
        res.fail("C07:save-load-raises:" + type(e).__name__, "%s: %r" % (tname, e))
        return res
    want2 = auxref.expected_python(tree, jv, gtirb, ir2.get_by_uuid)
    for holder, label in ((ir2, "ir"), (ir2.modules[0], "module")):
        ad = holder.aux_data.get("t")
        if ad is None or ad.type_name != tname:
            res.fail("C07:auxdata-lost", "%s %s" % (label, tname))
            continue
        try:
            got = ad.data
        except Exception as e:
            res.fail("C07:auxdata-data-raises:" + type(e).__name__, "%s %s: %r" % (label, tname, e))
            continue
        msg = auxref.same(tree, want2, got, gtirb)
        if msg:
            res.fail("C07:auxdata-roundtrip-differs", "%s %s: %s" % (label, tname, msg))
    return res


# ---- exhaustive integer-boundary table -------------------------------------

CONTEXTS = [
    lambda t, v: (t, v),
    lambda t, v: (["sequence", [t]], [v, v]),
    lambda t, v: (["set", [t]], [v]),
    lambda t, v: (["mapping", [t, t]], [[v, v]]),
    lambda t, v: (["mapping", [["string", []], t]], [["é", v]]),
    lambda t, v: (["tuple", [t]], [v]),
    lambda t, v: (["tuple", [["string", []], t, ["string", []]]], ["é", v, "z"]),
    lambda t, v: (["tuple", [t, t, t, t, t, t]], [v] * 6),
    lambda t, v: (["variant", [["string", []], t]], {"i": 1, "v": v}),
    lambda t, v: (["variant", [t, ["string", []]]], {"i": 0, "v": v}),
    lambda t, v: (["sequence", [["tuple", [t, ["bool", []]]]]], [[v, True], [v, False]]),
    lambda t, v: (["mapping", [["tuple", [t, t]], ["sequence", [t]]]], [[[v, v], [v]]]),
    lambda t, v: (["sequence", [["sequence", [["sequence", [t]]]]]], [[[v]], [], [[], [v, v]]]),
    lambda t, v: (["set", [["tuple", [t, ["string", []]]]]], [[v, "日本"]]),
]


def int_table():
    for name in auxref.INT_TYPES:
        lo, hi = auxref.int_range(name)
        for val in sorted({lo, lo + 1, -1 if lo < 0 else 0, 0, 1, hi - 1, hi}):
            for ctx in CONTEXTS:
                t, v = ctx([name, []], val)
                yield {"t": t, "v": v}


def strategy():
    from hypothesis import strategies as st

    return st.tuples(auxgen.typed_values(max_depth=4), st.booleans(), st.one_of(st.none(), st.integers(0, 40))).map(
        lambda t: dict(t[0], shared=t[1], disturb=t[2])
    )


def run_job(job):
    if job["kind"] == "int-table":
        return pbt.run_cases(int_table(), run_case, prefix=ID)
    return pbt.run_hypothesis(
        strategy(), run_case, prefix=ID, n_examples=job["n"], seed=job["seed"],
        max_shrink_evals=job.get("shrink", 300),
    )


def replay(doc):
    return run_case(doc["case"])


def jobs(tier, seed):
    n, shards = (16000, 8) if tier == "quick" else (1600000, 16)
    out = [{"name": "int-table", "kind": "int-table"}]
    for k in range(shards):
        out.append({"name": "random-%d" % k, "kind": "random", "n": n // shards,
                    "seed": seed * 1000 + k, "shrink": 300 if tier == "quick" else 1500})
    return out
