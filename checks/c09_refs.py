"""C09: after load every reference is the attached object itself.

Positive side: a reference-dense IR spec is built, saved and loaded; with
N = {uuid: object reached by containment iteration of the loaded IR}:
symbol referents, entry points, edge endpoints and expression symbols must be
(`is`) N[u]; AuxData UUID / Offset leaves naming attached nodes must be those
objects and all others plain uuid.UUID values; no UUID may be reachable as two
distinct objects.  Negative side: the saved message gets exactly one dangling
or ill-typed reference (each reference kind x {no such node, node of each
wrong kind}); load must raise gtirb.util.DeserializationError.
"""

import io
import uuid as uuidmod

from vlib import auxref, irbuild, pbt, refmsg, spec as specmod, spectags, tngrammar

ID = "C09"
LEVEL = "exploration"
RULE = (
    "cases: reference-dense G-IR specs (several symbols per block, several expressions per symbol, parallel edges, the "
    "same node named from IR-level and module-level AuxData inside sequences, sets, mapping keys/values and Offsets) "
    "saved and loaded (identity walk), and the same files with one injected reference fault: kind in {symbol referent, "
    "entry point, edge source, edge target, SymAddrConst symbol, SymAddrAddr symbol1, symbol2} x replacement in {UUID of "
    "no node, UUID of a node of each wrong kind}; non-trivial = some node is referenced through >= 2 different reference "
    "kinds (positive cases) or the fault was applicable (negative cases); distinct = SHA-1 of canonical JSON"
)
ASSUMPTIONS = [
    "files are self-contained per module (C01's precondition); wrong-length UUIDs and other malformations belong to C17",
]
REQUIRED_TAGS = {
    "quick": ["fault:uuid-clash", "positive", "fault:referent", "fault:entry", "fault:edge-source", "fault:edge-target", "fault:const-symbol",
              "fault:addr-symbol1", "fault:addr-symbol2", "repl:missing", "repl:wrong-kind", "aux-node-leaf"],
    "thorough": ["fault:uuid-clash", "positive", "fault:referent", "fault:entry", "fault:edge-source", "fault:edge-target", "fault:const-symbol",
                 "fault:addr-symbol1", "fault:addr-symbol2", "repl:missing", "repl:wrong-kind", "aux-node-leaf"],
}

FAULT_KINDS = ["referent", "entry", "edge-source", "edge-target", "const-symbol", "addr-symbol1", "addr-symbol2"]
# kinds a reference may legitimately name
ALLOWED = {
    "referent": {"CodeBlock", "DataBlock", "ProxyBlock"},
    "entry": {"CodeBlock"},
    "edge-source": {"CodeBlock", "ProxyBlock"},
    "edge-target": {"CodeBlock", "ProxyBlock"},
    "const-symbol": {"Symbol"},
    "addr-symbol1": {"Symbol"},
    "addr-symbol2": {"Symbol"},
}
ALL_KINDS = ["IR", "Module", "Section", "ByteInterval", "CodeBlock", "DataBlock", "ProxyBlock", "Symbol"]


def _gt():
    import gtirb

    return gtirb


def containment_map(ir):
    out = {ir.uuid: [ir]}

    def add(n):
        out.setdefault(n.uuid, []).append(n)

    for m in ir.modules:
        add(m)
        for p in m.proxies:
            add(p)
        for sy in m.symbols:
            add(sy)
        for s in m.sections:
            add(s)
            for bi in s.byte_intervals:
                add(bi)
                for b in bi.blocks:
                    add(b)
    return out


def header():
    return b"GTIRB\x00\x00" + bytes([refmsg.proto_version()])


def slots(msg):
    """every reference slot of a message: (fault kind, setter, current bytes)"""
    out = []
    for pm in msg.modules:
        if pm.entry_point:
            out.append(("entry", pm, "entry_point"))
        for psy in pm.symbols:
            if psy.WhichOneof("optional_payload") == "referent_uuid":
                out.append(("referent", psy, "referent_uuid"))
        for ps in pm.sections:
            for pi in ps.byte_intervals:
                for off in sorted(pi.symbolic_expressions):
                    pe = pi.symbolic_expressions[off]
                    which = pe.WhichOneof("value")
                    if which == "addr_const":
                        out.append(("const-symbol", pe.addr_const, "symbol_uuid"))
                    elif which == "addr_addr":
                        out.append(("addr-symbol1", pe.addr_addr, "symbol1_uuid"))
                        out.append(("addr-symbol2", pe.addr_addr, "symbol2_uuid"))
    for e in msg.cfg.edges:
        out.append(("edge-source", e, "source_uuid"))
        out.append(("edge-target", e, "target_uuid"))
    return out


def check_positive(g, r, B, ir2, res):
    N = containment_map(ir2)
    for u, objs in N.items():
        if len(objs) > 1:
            res.fail("C09:two-objects-one-uuid-in-tree", str(u))
            return
    node = {u: objs[0] for u, objs in N.items()}
    seen = {}  # uuid -> set of ids reached through references

    def reach(o, via):
        if isinstance(o, g.Node):
            want = node.get(o.uuid)
            if want is not o:
                res.fail("C09:%s-not-the-attached-object" % via, "%s %s: got object %#x, tree holds %s" % (type(o).__name__, o.uuid, id(o), "%#x" % id(want) if want is not None else None))
                return False
        return True

    refcount = {}
    for mi in r.mods:
        m = node.get(r.uuid(mi["spec"]))
        if m is None:
            res.fail("C09:module-missing", "")
            return
        e = r.entry(mi)
        if e is not None:
            if m.entry_point is not node.get(r.uuid(e)):
                res.fail("C09:entry-point-not-the-attached-object", "%r" % (m.entry_point,))
            refcount.setdefault(r.uuid(e), set()).add("entry")
        elif m.entry_point is not None:
            res.fail("C09:entry-point-invented", "")
        for sy in mi["symbols"]:
            s = node.get(r.uuid(sy))
            pay = r.payload(mi, sy)
            if pay is not None and pay[0] == "node":
                if s.referent is not node.get(r.uuid(pay[1])):
                    res.fail("C09:referent-not-the-attached-object", "symbol %s: %r" % (s.uuid, s.referent))
                refcount.setdefault(r.uuid(pay[1]), set()).add("referent")
            elif s.referent is not None:
                res.fail("C09:referent-invented", "")
        for bi in mi["intervals"]:
            b = node.get(r.uuid(bi))
            for at, e, s1, s2 in r.exprs(mi, bi):
                x = b.symbolic_expressions.get(at)
                if x is None:
                    res.fail("C09:expression-missing", "%s" % at)
                    continue
                if e["kind"] == "const":
                    if x.symbol is not node.get(r.uuid(s1)):
                        res.fail("C09:expression-symbol-not-the-attached-object", "const at %d" % at)
                    refcount.setdefault(r.uuid(s1), set()).add("expr")
                else:
                    if x.symbol1 is not node.get(r.uuid(s1)) or x.symbol2 is not node.get(r.uuid(s2)):
                        res.fail("C09:expression-symbol-not-the-attached-object", "addr at %d" % at)
                    refcount.setdefault(r.uuid(s1), set()).add("expr")
                    refcount.setdefault(r.uuid(s2), set()).add("expr")
                for sym in x.symbols:
                    reach(sym, "expression-symbol")
    want_edges = {(r.uuid(s), r.uuid(t), lab) for s, t, lab, _ in r.edges()}
    got_edges = set()
    for e in ir2.cfg:
        reach(e.source, "edge-endpoint")
        reach(e.target, "edge-endpoint")
        lab = None if e.label is None else (e.label.type.value, bool(e.label.conditional), bool(e.label.direct))
        got_edges.add((e.source.uuid, e.target.uuid, lab))
    if got_edges != want_edges:
        res.fail("C09:edges-differ", "%d vs %d" % (len(got_edges), len(want_edges)))
    for s, t, lab, _ in r.edges():
        refcount.setdefault(r.uuid(s), set()).add("edge")
        refcount.setdefault(r.uuid(t), set()).add("edge")
    # node views of edges must hand out the same objects
    for u, o in node.items():
        if isinstance(o, g.CfgNode):
            for e in list(o.outgoing_edges) + list(o.incoming_edges):
                reach(e.source, "block-edge-view")
                reach(e.target, "block-edge-view")
    # AuxData
    for holder_spec, holder in [(r.spec["ir"], ir2)] + [(mi["spec"], node[r.uuid(mi["spec"])]) for mi in r.mods]:
        for a in holder_spec["aux"]:
            tree, jv = r.aux_value(a)
            ad = holder.aux_data.get(a["key"])
            if ad is None:
                res.fail("C09:auxdata-lost", a["key"])
                continue
            want = auxref.expected_python(tree, jv, g, lambda u: node.get(u))
            try:
                got = ad.data
            except Exception as e:
                res.fail("C09:auxdata-data-raises:" + type(e).__name__, repr(e))
                continue
            msg = auxref.same(tree, want, got, g)
            if msg:
                res.fail("C09:auxdata-leaf-identity", "%s %s: %s" % (a["key"], tngrammar.to_string(tree), msg))
            if _names_node(tree, jv, set(u.hex for u in node)):
                res.tag("aux-node-leaf")
                for h in _node_hexes(tree, jv, set(u.hex for u in node)):
                    refcount.setdefault(uuidmod.UUID(hex=h), set()).add("aux")
    for u, o in node.items():
        if ir2.get_by_uuid(u) is not o:
            res.fail("C09:get_by_uuid-other-object", str(u))
    return any(len(v) >= 2 for v in refcount.values())


def _node_hexes(tree, jv, hexes):
    name, subs = tree
    if name == "UUID":
        return [jv["u"]] if jv["u"] in hexes else []
    if name == "Offset":
        return [jv["o"]] if jv["o"] in hexes else []
    if name in ("sequence", "set"):
        return [h for x in jv for h in _node_hexes(subs[0], x, hexes)]
    if name == "mapping":
        return [h for k, v in jv for h in _node_hexes(subs[0], k, hexes) + _node_hexes(subs[1], v, hexes)]
    if name == "tuple":
        return [h for s, x in zip(subs, jv) for h in _node_hexes(s, x, hexes)]
    if name == "variant":
        return _node_hexes(subs[jv["i"]], jv["v"], hexes)
    return []


def _names_node(tree, jv, hexes):
    return bool(_node_hexes(tree, jv, hexes))


def run_case(case):
    g = _gt()
    from gtirb.util import DeserializationError
    from gtirb.proto import IR_pb2

    res = pbt.CaseResult()
    spec = case["spec"]
    r = specmod.validate(spec)
    try:
        B = irbuild.build(g, spec, r, use_how=False)
        buf = io.BytesIO()
        B.ir.save_protobuf_file(buf)
        data = buf.getvalue()
    except pbt.CaseTimeout:
        raise
    except Exception as e:
        res.fail(pbt.exception_bucket("C09:build-or-save", e), repr(e))
        return res
    fault = case.get("fault")
    if fault is None:
        res.tag("positive")
        try:
            ir2 = g.IR.load_protobuf_file(io.BytesIO(data))
        except pbt.CaseTimeout:
            raise
        except Exception as e:
            res.fail(pbt.exception_bucket("C09:load-of-valid-file", e), repr(e))
            return res
        res.nontrivial = bool(check_positive(g, r, B, ir2, res))
        return res
    msg = IR_pb2.IR()
    msg.ParseFromString(data[8:])
    if fault.get("clash") is not None:
        # "each UUID denotes one object": node #j of the file is given node
        # #i's UUID (whatever their kinds).  The loader may reject the file;
        # an IR it returns must not hold two attached nodes with one UUID, and
        # every reference to that UUID must be the node lookup finds
        from checks import c17_loader
        from vlib import coherence

        f = c17_loader.uuid_fields(msg)
        i, j = fault["clash"][0] % len(f), fault["clash"][1] % len(f)
        if i == j:
            res.tag("fault:not-applicable")
            return res
        setattr(f[j][0], f[j][1], getattr(f[i][0], f[i][1]))
        res.tag("fault:uuid-clash", "clash:%s<-%s" % (f[j][2], f[i][2]))
        res.nontrivial = True
        try:
            ir2 = g.IR.load_protobuf_file(io.BytesIO(header() + msg.SerializeToString()))
        except pbt.CaseTimeout:
            raise
        except Exception:  # noqa
            res.tag("clash:rejected")
            return res
        res.tag("clash:accepted")
        for bucket, detail in coherence.check(g, ir2, reload=False):
            if bucket in ("two-attached-nodes-share-a-uuid", "get_by_uuid-disagrees-with-tree", "node-in-two-places"):
                res.fail("C09:uuid-does-not-denote-one-object:" + bucket, "%s#%d <- %s#%d: %s" % (f[j][2], j, f[i][2], i, detail))
                return res
        return res
    allslots = slots(msg)
    present = [k for k in FAULT_KINDS if any(s[0] == k for s in allslots)]
    if not present:
        res.tag("fault:not-applicable")
        return res
    kind = present[fault["kind"] % len(present)]
    by_kind = {}
    for k, _n, u in r.nodes:
        by_kind.setdefault(k, []).append(u)
    wrong = [k for k in ALL_KINDS if k not in ALLOWED[kind] and by_kind.get(k)]
    n_slots = len([s_ for s_ in allslots if s_[0] == kind])
    res.tag("fault:" + kind)
    res.nontrivial = True

    def try_fault(slot_i, repl):
        """one reference of this kind replaced; -> True if the file was handled as the property says"""
        m2 = IR_pb2.IR()
        m2.CopyFrom(msg)
        cands = [s_ for s_ in slots(m2) if s_[0] == kind]
        _, owner, field = cands[slot_i % len(cands)]
        if repl >= len(wrong):
            new = uuidmod.UUID(int=(0xF00D << 100) | slot_i).bytes
            res.tag("repl:missing")
            repl_name = "a missing uuid"
        else:
            k = wrong[repl]
            new = by_kind[k][slot_i % len(by_kind[k])].bytes
            res.tag("repl:wrong-kind", "repl:" + k)
            repl_name = "a " + k
        setattr(owner, field, new)
        try:
            g.IR.load_protobuf_file(io.BytesIO(header() + m2.SerializeToString()))
        except DeserializationError:
            return True
        except pbt.CaseTimeout:
            raise
        except Exception as e:
            res.fail(
                "C09:fault-%s-raises-%s-not-DeserializationError" % (kind, type(e).__name__),
                "%s replaced by %s: %r" % (kind, repl_name, e),
            )
            return False
        res.fail(
            "C09:fault-%s-accepted" % kind,
            "%s replaced by %s: load returned an IR" % (kind, repl_name),
        )
        return False

    # the sampled fault first (it is what a shrunk replay names) ...
    if not try_fault(fault["slot"], fault["repl"] % (len(wrong) + 2)):
        return res
    # ... then every reference of that kind x every wrong kind and a missing UUID
    for slot_i in range(n_slots):
        for repl in range(len(wrong) + 1):
            if not try_fault(slot_i, repl):
                return res
    res.tag("fault-sweep")
    return res


def strategy():
    from hypothesis import strategies as st

    fault = st.one_of(
        st.none(),
        st.fixed_dictionaries(
            {"kind": st.integers(0, len(FAULT_KINDS) - 1), "slot": st.integers(0, 50), "repl": st.integers(0, len(ALL_KINDS) + 3)}
        ),
        st.fixed_dictionaries({"clash": st.tuples(st.integers(0, 60), st.integers(0, 60)).map(list)}),
    )
    return st.fixed_dictionaries({"spec": specmod.specs(rich_refs=True, max_aux_depth=2), "fault": fault})


def run_job(job):
    return pbt.run_hypothesis(strategy(), run_case, prefix=ID, n_examples=job["n"], seed=job["seed"],
                              max_shrink_evals=job.get("shrink", 300))


def replay(doc):
    return run_case(doc["case"])


def jobs(tier, seed):
    n, shards = (4000, 8) if tier == "quick" else (160000, 16)
    return [{"name": "refs-%d" % k, "kind": "refs", "n": n // shards, "seed": seed * 1000 + 400 + k,
             "shrink": 300 if tier == "quick" else 1500} for k in range(shards)]
