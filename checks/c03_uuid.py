"""C03: UUID lookup finds exactly the nodes currently attached to that IR.

Oracle (model-free invariant over the history): after every op and for every
IR, with R(ir) = the nodes reached by iterating ir.modules / .sections /
.proxies / .symbols / .byte_intervals / .blocks (plus the IR itself), for
every UUID u ever seen plus fresh ones: ir.get_by_uuid(u) is R(ir).get(u).
It is also evaluated on the state an op leaves behind when it raised.
"""

from vlib import forest, forestgen, pbt

ID = "C03"
LEVEL = "exploration"
RULE = (
    "cases: Hypothesis op programs (<= 40 ops, swarm-selected opcodes) over 3 IRs, 4 modules, 4 sections, 5 "
    "intervals, 6 blocks, 3 proxies, 5 symbols in a generated initial layout: the 6 parent-attribute setters (to a "
    "node, the current parent, None); add/discard/remove/pop/clear/update(1-3 iterables)/|=/&=/-=/^= on the 5 owning "
    "sets; insert/append/extend/+=/del[i]/del[slice]/[i]=/[slice]=/pop/remove/reverse/clear on ir.modules; "
    "constructors with parent= and with children arguments (children possibly owned elsewhere); load(save(ir)) "
    "adding an IR with equal UUIDs; unrelated attribute edits; non-trivial = the history moves a subtree between two "
    "IRs or detaches and re-attaches a node, and uses >= 1 collection-side op; distinct = SHA-1 of canonical JSON"
)
ASSUMPTIONS = [
    "UUIDs are pairwise distinct among nodes of one tree (a move that would put a loaded twin next to its original is a counted no-op)",
]
REQUIRED_TAGS = {
    "quick": ["failed-op:list.insert-bad-index", "failed-op:set.update", "view-operand:list.extend:other", "ctor-children:repeated", "cross-ir-move", "reattach", "op:load", "op:new", "op:list.setslice", "op:set.ixor"],
    "thorough": ["failed-op:list.insert-bad-index", "failed-op:set.update", "view-operand:list.extend:other", "ctor-children:repeated", "cross-ir-move", "reattach", "op:load", "op:new", "op:list.setslice", "op:set.ixor"],
}
PREFIXES = ("cache:",)


def _gt():
    import gtirb

    return gtirb


def run_program(case, res, prefixes, check_fn, symbols=False):
    g = _gt()
    tags = []
    w = forest.World(g, case.get("layout"))
    check_fn(w, "layout")
    cross = reattach = coll_side = False
    detached_once = set()
    for n, op in enumerate(case["ops"]):
        name = op["op"] + ("." + op["f"] if "f" in op else "")
        where = "op %d %s" % (n, name)
        before_ir = {key: w.ir_of(*key) for key in w.par}
        before_par = dict(w.par)
        raised = None
        try:
            applied = w.apply(op)
        except pbt.CaseTimeout:
            raise
        except Exception as e:  # noqa
            applied = True
            raised = e
            w.failf(pbt.exception_bucket("refine:op-" + name, e), "%s: %r" % (where, e))
            w.resync()
        if applied:
            tags.append("op:" + name)
            if op.get("as") == "boom":
                tags.append("failed-op:" + name)
        if name.startswith("set.") or name.startswith("list.") or name == "new":
            coll_side = coll_side or applied
        for key, old in before_ir.items():
            new = w.ir_of(*key)
            if old is not None and new is not None and old != new and key[0] != "mod" and w.subtree(*key):
                cross = True
            if old is not None and new is not None and old != new and key[0] == "mod" and len(w.subtree(*key)) > 1:
                cross = True
        for key, oldp in before_par.items():
            newp = w.par.get(key)
            if oldp is not None and newp is None:
                detached_once.add(key)
            elif newp is not None and oldp is None and key in detached_once:
                reattach = True
        check_fn(w, where)
        mine = [f for f in w.fail if f[0].startswith(prefixes)]
        if mine:
            break
    for b, d in w.fail:
        if b.startswith(prefixes):
            res.fail(ID_OF[prefixes] + ":" + b, d)
    res.tag(*tags)
    res.tag(*w.tags)
    if cross:
        res.tag("cross-ir-move")
    if reattach:
        res.tag("reattach")
    if w.noops:
        res.tags.append("noop")
    return w, cross, reattach, coll_side


ID_OF = {("cache:",): "C03"}


def run_case(case):
    res = pbt.CaseResult()
    w, cross, reattach, coll_side = run_program(case, res, PREFIXES, lambda w, where: w.check_cache(where))
    res.nontrivial = (cross or reattach) and coll_side
    return res


def strategy():
    return forestgen.cases(max_len=40)


def run_job(job):
    return pbt.run_hypothesis(strategy(), run_case, prefix=ID, n_examples=job["n"], seed=job["seed"],
                              max_shrink_evals=job.get("shrink", 400))


def replay(doc):
    return run_case(doc["case"])


def jobs(tier, seed):
    n, shards = (6000, 8) if tier == "quick" else (400000, 16)
    return [{"name": "hist-%d" % k, "kind": "hist", "n": n // shards, "seed": seed * 1000 + k,
             "shrink": 400 if tier == "quick" else 2000} for k in range(shards)]
