"""C18: deep_eq is exact structural equality.

Oracle: for IRs x, y:  x.deep_eq(y)  ==  (D(x) == D(y))  where D is the
public-attribute snapshot (vlib.snapshot) reduced to what the API documents as
compared: everything except AuxData values / type names (only the key sets)
and the order of ir.modules.  It is evaluated for every ordered pair among
  A = build(S, route 1), A itself, B0 = build(S, route 2), L = load(save(A)),
  Bp = build(perturb_p(S)) for generated single-field perturbations p.
On sub-nodes and CFG.deep_eq (whose verdict may depend on nodes referenced from
outside the subtree) only the unambiguous directions are demanded: reflexive,
symmetric, True between corresponding nodes of A / B0 / L, False when the
subtree's own compared content differs.
"""

import copy
import io

from vlib import irbuild, pbt, snapshot, spec as specmod, spectags

ID = "C18"
LEVEL = "exploration"
RULE = (
    "cases: a G-IR spec S plus up to 4 perturbations drawn from a catalogue enumerating every compared field (each "
    "attribute of each node kind, UUID of each kind, add/remove module / section / interval / block / proxy / symbol / "
    "expression / edge / flag / attribute / AuxData key, symbol payload kind and target, entry point, edge label "
    "None<->all-false and single components, expression kind, block kind with the same UUID, IR version) and the two "
    "non-compared ones (module order, AuxData value); A, an independently routed copy, a save/load copy and each perturbed "
    "copy are compared pairwise; non-trivial = some perturbed copy differs from A in a compared field located below the "
    "first module in UUID order or in a structure with >= 2 siblings (sort-and-zip alignment matters); distinct = SHA-1 "
    "of canonical JSON"
)
ASSUMPTIONS = [
    "the snapshot of vlib.snapshot lists exactly the documented compared fields (all attributes, containment, payloads, entry points, expressions with attributes, edges with labels, IR version, AuxData key sets)",
]
REQUIRED_TAGS = {
    "quick": ["pert:interval.contents-length", "inplace-edit", "noise-history", "pert:block.kind", "pert:module.swap-order", "pert:aux.value", "pert:aux.key-rename", "pert:ir.version", "pert:edge.label", "pert:expr.attr", "pert:node.uuid", "expected:differs", "expected:equal"],
    "thorough": ["pert:interval.contents-length", "inplace-edit", "noise-history", "pert:block.kind", "pert:module.swap-order", "pert:aux.value", "pert:aux.key-rename", "pert:ir.version", "pert:edge.label", "pert:expr.attr", "pert:node.uuid", "expected:differs", "expected:equal"],
}


def _gt():
    import gtirb

    return gtirb


# ------------------------------------------------------------------ D(x)


def deep_snapshot(g, ir):
    s = snapshot.snapshot(g, ir, aux_values=False)
    for h, d in s["nodes"].items():
        if "aux" in d:
            d["aux"] = sorted(d["aux"])
        if d.get("kind") == "IR":
            d["modules"] = sorted(d["modules"])
    return s


def subtree(snap, h):
    """the part of a snapshot below node h (children lists are kept, parent
    links dropped: deep_eq of a node never looks at its parent)"""
    out = {}
    work = [h]
    while work:
        x = work.pop()
        d = dict(snap["nodes"].get(x, {}))
        d.pop("parent", None)
        out[x] = d
        for key in ("modules", "sections", "proxies", "symbols", "intervals", "blocks"):
            work.extend(d.get(key, []))
    return out


# ------------------------------------------------------------------ perturbations


def _nodes(spec, kind):
    out = []
    for m in spec["modules"]:
        if kind == "module":
            out.append((m, spec["modules"]))
        for p in m["proxies"]:
            if kind == "proxy":
                out.append((p, m["proxies"]))
        for sy in m["symbols"]:
            if kind == "symbol":
                out.append((sy, m["symbols"]))
        for s in m["sections"]:
            if kind == "section":
                out.append((s, m["sections"]))
            for bi in s["intervals"]:
                if kind == "interval":
                    out.append((bi, s["intervals"]))
                for b in bi["blocks"]:
                    if kind == "block":
                        out.append((b, bi["blocks"]))
                for e in bi["exprs"]:
                    if kind == "expr":
                        out.append((e, bi["exprs"]))
    return out


def _fresh_id(spec):
    r = specmod.Resolved(spec)
    return max(n["id"] for _, n, _ in r.nodes) + 1


def _bump_int(d, key, lo, hi, k):
    v = d[key]
    nv = v + 1 + (k % 3) if v + 1 + (k % 3) <= hi else v - 1 - (k % 3)
    if not lo <= nv <= hi or nv == v:
        return False
    d[key] = nv
    return True


def _cycle(d, key, values, k):
    others = [v for v in values if v != d[key]]
    if not others:
        return False
    d[key] = others[k % len(others)]
    return True


def make_catalogue(sc):
    U64 = specmod.U64
    cat = {}

    def reg(name, kind, fn):
        cat[name] = (kind, fn)

    reg("module.name", "module", lambda n, k, spec: n.__setitem__("name", n["name"] + "x") or True)
    reg("module.binary_path", "module", lambda n, k, spec: n.__setitem__("binary_path", n["binary_path"] + "/y") or True)
    reg("module.isa", "module", lambda n, k, spec: _cycle(n, "isa", sc["isa"], k))
    reg("module.file_format", "module", lambda n, k, spec: _cycle(n, "file_format", sc["file_format"], k))
    reg("module.byte_order", "module", lambda n, k, spec: _cycle(n, "byte_order", sc["byte_order"], k))
    reg("module.preferred_addr", "module", lambda n, k, spec: _bump_int(n, "preferred_addr", 0, U64, k))
    reg("module.rebase_delta", "module", lambda n, k, spec: _bump_int(n, "rebase_delta", specmod.I64_MIN, specmod.I64_MAX, k))
    reg("module.entry", "module", lambda n, k, spec: n.__setitem__("entry", None if n["entry"] is not None and k % 2 else (0 if n["entry"] is None else n["entry"] + 1)) or True)
    reg("section.name", "section", lambda n, k, spec: n.__setitem__("name", n["name"] + "z") or True)

    def flag(n, k, spec):
        f = sc["section_flag"][k % len(sc["section_flag"])]
        if f in n["flags"]:
            n["flags"].remove(f)
        else:
            n["flags"].append(f)
        return True

    reg("section.flag", "section", flag)

    def address(n, k, spec):
        if n["address"] is None:
            n["address"] = k % 5
        elif k % 3 == 0:
            n["address"] = None
        else:
            return _bump_int(n, "address", 0, U64, k)
        return True

    reg("interval.address", "interval", address)
    reg("interval.size", "interval", lambda n, k, spec: _bump_int(n, "size", len(n["contents"]), U64, 0) if n["size"] < U64 else False)

    def contents(n, k, spec):
        if n["contents"]:
            i = k % len(n["contents"])
            n["contents"][i] = (n["contents"][i] + 1) % 256
        elif n["size"] >= 1:
            n["contents"].append(k % 256)
        else:
            return False
        return True

    reg("interval.contents", "interval", contents)

    def contents_length(n, k, spec):
        """one stored byte more (a zero, as raising initialized_size pads) or one
        fewer: the stored bytes differ although no byte value changed"""
        if k % 2 == 0 and len(n["contents"]) < n["size"]:
            n["contents"].append(0)
        elif n["contents"]:
            n["contents"].pop()
        elif n["size"] >= 1:
            n["contents"].append(0)
        else:
            return False
        return True

    reg("interval.contents-length", "interval", contents_length)
    reg("block.offset", "block", lambda n, k, spec: _bump_int(n, "offset", 0, U64, k))
    reg("block.size", "block", lambda n, k, spec: _bump_int(n, "size", 0, U64, k))
    reg("block.kind", "block", lambda n, k, spec: n.__setitem__("kind", "data" if n["kind"] == "code" else "code") or True)
    reg("block.decode_mode", "block", lambda n, k, spec: n["kind"] == "code" and _cycle(n, "decode_mode", sc["decode_mode"], k))
    reg("symbol.name", "symbol", lambda n, k, spec: n.__setitem__("name", n["name"] + "q") or True)
    reg("symbol.at_end", "symbol", lambda n, k, spec: n.__setitem__("at_end", not n["at_end"]) or True)

    def payload(n, k, spec):
        p = n["payload"]
        choices = [None, {"value": 0}, {"value": 5 + k % 7}, {"block": k % 4}, {"proxy": k % 3}, {"block": (k % 4) + 1}]
        others = [c for c in choices if c != p]
        n["payload"] = others[k % len(others)]
        return True

    reg("symbol.payload", "symbol", payload)
    reg("expr.offset", "expr", lambda n, k, spec: _bump_int(n, "offset", specmod.I64_MIN, specmod.I64_MAX, k))
    reg("expr.scale", "expr", lambda n, k, spec: n["kind"] == "addr" and _bump_int(n, "scale", specmod.I64_MIN, specmod.I64_MAX, k))
    reg("expr.symbol", "expr", lambda n, k, spec: n.__setitem__("sym1", n["sym1"] + 1) or True)
    reg("expr.symbol2", "expr", lambda n, k, spec: n["kind"] == "addr" and (n.__setitem__("sym2", n["sym2"] + 1) or True))
    reg("expr.kind", "expr", lambda n, k, spec: n.__setitem__("kind", "addr" if n["kind"] == "const" else "const") or True)

    def attr(n, k, spec):
        pool = sc["sym_attr"][:4] + [5000, -1]
        a = pool[k % len(pool)]
        if a in n["attrs"]:
            n["attrs"].remove(a)
        else:
            n["attrs"].append(a)
        return True

    reg("expr.attr", "expr", attr)

    def expr_at(n, k, spec):
        # move the expression to another offset of its interval
        for bi, _ in _nodes(spec, "interval"):
            if any(e is n for e in bi["exprs"]):
                used = {e["at"] for e in bi["exprs"]}
                cand = n["at"] + 1
                while cand in used:
                    cand += 1
                if cand > U64:
                    return False
                n["at"] = cand
                return True
        return False

    reg("expr.at", "expr", expr_at)

    def node_uuid(kind):
        def fn(n, k, spec):
            n["id"] = _fresh_id(spec)
            return True

        return fn

    for kind in ("module", "section", "interval", "block", "proxy", "symbol"):
        reg("node.uuid:" + kind, kind, node_uuid(kind))

    def remove(kind):
        def fn(n, k, spec):
            for node, lst in _nodes(spec, kind):
                if node is n:
                    lst.remove(n)
                    return True
            return False

        return fn

    for kind in ("module", "section", "interval", "block", "proxy", "symbol", "expr"):
        reg("remove:" + kind, kind, remove(kind))

    def add_child(parent_kind, key, make):
        def fn(n, k, spec):
            n[key].append(make(spec, k))
            return True

        return fn

    reg("add:proxy", "module", add_child("module", "proxies", lambda spec, k: {"id": _fresh_id(spec), "how": 0}))
    reg("add:symbol", "module", add_child("module", "symbols", lambda spec, k: {"id": _fresh_id(spec), "how": 0, "late": False, "name": "new", "at_end": False, "payload": None, "payload_how": 0}))
    reg("add:section", "module", add_child("module", "sections", lambda spec, k: {"id": _fresh_id(spec), "how": 0, "late": False, "name": "new", "flags": [], "intervals": []}))
    reg("add:interval", "section", add_child("section", "intervals", lambda spec, k: {"id": _fresh_id(spec), "how": 0, "late": False, "address": None, "size": 0, "contents": [], "ctor_variant": 0, "blocks": [], "exprs": [], "se_how": 1}))
    reg("add:block", "interval", add_child("interval", "blocks", lambda spec, k: {"id": _fresh_id(spec), "how": 0, "late": False, "kind": "code" if k % 2 else "data", "offset": k % 5, "size": k % 3, "decode_mode": sc["decode_mode"][0]}))

    def add_expr(n, k, spec):
        used = {e["at"] for e in n["exprs"]}
        at = 0
        while at in used:
            at += 1
        n["exprs"].append({"at": at, "kind": "const", "offset": k % 9, "scale": 1, "sym1": k, "sym2": k + 1, "attrs": [], "attrs_late": False})
        return True

    reg("add:expr", "interval", add_expr)
    return cat


IR_PERTS = ["edge.add", "edge.remove", "edge.label", "edge.src", "edge.tgt", "aux.key-add", "aux.key-remove", "aux.key-rename", "aux.value",
            "module.swap-order", "module.add", "ir.uuid", "ir.version", "none"]


def apply_ir_pert(name, spec, k, sc):
    """perturbations that are not attached to one node dict; returns False
    when not applicable; 'ir.version' is applied to the built IR instead"""
    edges = spec["edges"]
    if name == "edge.add":
        edges.append({"src": k, "tgt": k // 3, "label": [sc["edge_type"][k % len(sc["edge_type"])], bool(k % 2), bool(k % 3)], "how": 1})
        return True
    if name == "edge.remove":
        if not edges:
            return False
        del edges[k % len(edges)]
        return True
    if name in ("edge.label", "edge.src", "edge.tgt"):
        if not edges:
            return False
        e = edges[k % len(edges)]
        if name == "edge.src":
            e["src"] += 1
        elif name == "edge.tgt":
            e["tgt"] += 1
        else:
            lab = e["label"]
            if lab is None:
                e["label"] = [sc["edge_type"][0], False, False]
            elif k % 4 == 0:
                e["label"] = None
            elif k % 4 == 1:
                e["label"] = [lab[0], not lab[1], lab[2]]
            elif k % 4 == 2:
                e["label"] = [lab[0], lab[1], not lab[2]]
            else:
                others = [t for t in sc["edge_type"] if t != lab[0]]
                e["label"] = [others[k % len(others)], lab[1], lab[2]]
        return True
    holders = [spec["ir"]] + spec["modules"]
    h = holders[k % len(holders)]
    if name == "aux.key-add":
        key = "added%d" % k
        h["aux"].append({"key": key, "t": ["uint8_t", []], "v": k % 200})
        return True
    if name == "aux.key-remove":
        if not h["aux"]:
            return False
        del h["aux"][k % len(h["aux"])]
        return True
    if name == "aux.key-rename":
        for hh in holders[k % len(holders):] + holders[: k % len(holders)]:
            if hh["aux"]:
                a = hh["aux"][k % len(hh["aux"])]
                new_key = a["key"] + "'"
                while any(x["key"] == new_key for x in hh["aux"]):
                    new_key += "'"
                a["key"] = new_key
                return True
        return False
    if name == "aux.value":
        for hh in holders:
            for a in hh["aux"]:
                if a["t"] == ["uint8_t", []]:
                    a["v"] = (a["v"] + 1) % 200
                    return True
        h["aux"] = [a for a in h["aux"] if a["key"] != "v"] + [{"key": "v", "t": ["uint8_t", []], "v": k % 200}]
        return None  # applies to both copies: handled by caller (value differs)
    if name == "module.swap-order":
        if len(spec["modules"]) < 2:
            return False
        spec["modules"].reverse()
        return True
    if name == "module.add":
        spec["modules"].append({"id": _fresh_id(spec), "how": 0, "late": False, "name": "extra", "binary_path": "", "isa": sc["isa"][0],
                                "file_format": sc["file_format"][0], "byte_order": sc["byte_order"][0], "preferred_addr": 0,
                                "rebase_delta": 0, "proxies": [], "sections": [], "symbols": [], "entry": None, "entry_how": 0,
                                "aux": [], "aux_how": 1})
        return True
    if name == "ir.uuid":
        spec["ir"]["id"] = _fresh_id(spec)
        return True
    return name in ("ir.version", "none")


def perturb(spec, pert, sc, cat):
    """-> (new spec, post-build action) or None"""
    new = copy.deepcopy(spec)
    name = pert["p"]
    k = pert.get("k", 0)
    if name in cat:
        kind, fn = cat[name]
        nodes = _nodes(new, kind)
        if not nodes:
            return None
        node = nodes[pert.get("n", 0) % len(nodes)][0]
        if not fn(node, k, new):
            return None
        return new, None
    ok = apply_ir_pert(name, new, k, sc)
    if ok is False:
        return None
    return new, ("version" if name == "ir.version" else None)


# ------------------------------------------------------------------ the check


def pair_check(g, res, x, dx, y, dy, what):
    want = dx == dy
    for a, b, da, db, tag in ((x, y, dx, dy, what), (y, x, dy, dx, what + " (reversed)")):
        try:
            got = a.deep_eq(b)
        except pbt.CaseTimeout:
            raise
        except Exception as e:
            res.fail(pbt.exception_bucket("C18:deep_eq-raises", e), "%s: %r" % (tag, e))
            return
        if got is not want:
            d = snapshot.diff(da, db)
            res.fail(
                "C18:ir-deep_eq-%s" % ("false-on-equal" if want else "true-on-different"),
                "%s: deep_eq = %r, snapshots %s%s" % (tag, got, "equal" if want else "differ: ", d or ""),
            )
            return


def subnode_checks(g, res, x, dx, y, dy, what, expect_equal_nodes):
    """corresponding sub-nodes of x and y (same UUID)"""
    for h in dx["nodes"]:
        if h not in dy["nodes"] or dx["nodes"][h].get("kind") == "IR":
            continue
        import uuid

        a = x.get_by_uuid(uuid.UUID(hex=h))
        b = y.get_by_uuid(uuid.UUID(hex=h))
        if a is None or b is None:
            continue
        try:
            ab, ba, aa = a.deep_eq(b), b.deep_eq(a), a.deep_eq(a)
        except pbt.CaseTimeout:
            raise
        except Exception as e:
            res.fail(pbt.exception_bucket("C18:node-deep_eq-raises", e), "%s %s: %r" % (what, type(a).__name__, e))
            return
        kind = type(a).__name__
        if aa is not True:
            res.fail("C18:node-not-reflexive:" + kind, "%s %s" % (what, h))
            return
        if ab is not ba:
            res.fail("C18:node-not-symmetric:" + kind, "%s %s: %r vs %r" % (what, h, ab, ba))
            return
        own_equal = subtree(dx, h) == subtree(dy, h)
        if not own_equal and ab is not False:
            res.fail("C18:node-true-on-different:" + kind, "%s %s: %s" % (what, h, snapshot.diff(subtree(dx, h), subtree(dy, h))))
            return
        if expect_equal_nodes and ab is not True:
            res.fail("C18:node-false-on-equal:" + kind, "%s %s" % (what, h))
            return
    # CFG
    try:
        ab, ba = x.cfg.deep_eq(y.cfg), y.cfg.deep_eq(x.cfg)
    except pbt.CaseTimeout:
        raise
    except Exception as e:
        res.fail(pbt.exception_bucket("C18:cfg-deep_eq-raises", e), repr(e))
        return
    if ab is not ba:
        res.fail("C18:cfg-not-symmetric", what)
    elif dx["edges"] != dy["edges"] and ab is not False:
        res.fail("C18:cfg-true-on-different", "%s: %s" % (what, snapshot.diff(dx["edges"], dy["edges"])))
    elif expect_equal_nodes and ab is not True:
        res.fail("C18:cfg-false-on-equal", what)


def inplace_edit(g, ir, k):
    """edit one compared field of `ir` in place; returns the undo function"""
    kind = k % 10
    n = k // 10
    mods = list(ir.modules)
    syms = list(ir.symbols)
    blks = list(ir.byte_blocks)
    bis = list(ir.byte_intervals)
    secs = list(ir.sections)
    if kind == 0 and syms:
        s_ = syms[n % len(syms)]
        old = s_.name
        s_.name = old + "~"
        return lambda: setattr(s_, "name", old)
    if kind == 1 and syms:
        s_ = syms[n % len(syms)]
        old = s_.at_end
        s_.at_end = not old
        return lambda: setattr(s_, "at_end", old)
    if kind == 2 and syms:
        s_ = syms[n % len(syms)]
        old = s_._payload if False else (s_.referent if s_.referent is not None else s_.value)
        s_.value = 12345 if old != 12345 else 54321

        def undo():
            if isinstance(old, g.Block):
                s_.referent = old
            else:
                s_.value = old

        return undo
    if kind == 3 and blks:
        b = blks[n % len(blks)]
        old = b.size
        b.size = old + 1
        return lambda: setattr(b, "size", old)
    if kind == 4 and blks:
        b = blks[n % len(blks)]
        old = b.offset
        b.offset = old + 1
        return lambda: setattr(b, "offset", old)
    if kind == 5 and mods:
        m = mods[n % len(mods)]
        old = m.name
        m.name = old + "~"
        return lambda: setattr(m, "name", old)
    if kind == 6 and secs:
        s_ = secs[n % len(secs)]
        f = g.Section.Flag.ThreadLocal
        had = f in s_.flags
        (s_.flags.discard if had else s_.flags.add)(f)
        return lambda: (s_.flags.add if had else s_.flags.discard)(f)
    if kind == 7 and bis:
        bi = bis[n % len(bis)]
        old = bi.address
        bi.address = 77 if old != 77 else 78
        return lambda: setattr(bi, "address", old)
    if kind == 8:
        exprs = [(bi, off, x) for bi in bis for off, x in bi.symbolic_expressions.items()]
        if exprs:
            bi, off, x = exprs[n % len(exprs)]
            a = g.SymbolicExpression.Attribute.TLSDESC
            had = a in x.attributes
            (x.attributes.discard if had else x.attributes.add)(a)
            return lambda: (x.attributes.add if had else x.attributes.discard)(a)
    if kind == 9:
        nodes = list(ir.cfg_nodes)
        if nodes:
            e = g.Edge(nodes[n % len(nodes)], nodes[(n // 5) % len(nodes)], g.Edge.Label(g.Edge.Type.Sysret, True, False))
            if e not in ir.cfg:
                ir.cfg.add(e)
                return lambda: ir.cfg.discard(e)
    return None


def noise(g, ir, ks):
    """a history with no net effect on one side: things are added and removed
    again (deep_eq is about current content, not about how it came to be)"""
    import uuid

    for n, k in enumerate(ks):
        kind = k % 6
        u = uuid.UUID(int=(0x9015E << 96) | (n << 8) | (k & 0xFF))
        nodes = list(ir.cfg_nodes)
        mods = list(ir.modules)
        if kind == 0 and nodes:
            # an edge between arbitrary CFG nodes with a label nothing else uses
            a, b = nodes[k % len(nodes)], nodes[(k // 7) % len(nodes)]
            lab = g.Edge.Label(g.Edge.Type.Sysret, bool(k % 2), bool(k % 3))
            e = g.Edge(a, b, lab)
            if e not in ir.cfg:
                ir.cfg.add(e)
                ir.cfg.discard(e)
        elif kind == 1:
            p = g.ProxyBlock(uuid=u)
            if mods:
                mods[k % len(mods)].proxies.add(p)
                e = g.Edge(p, p, None)
                ir.cfg.add(e)
                ir.cfg.remove(e)
                p.module = None
        elif kind == 2 and mods:
            m = mods[k % len(mods)]
            s = g.Symbol("noise", uuid=u, module=m)
            m.symbols.discard(s)
            sec = g.Section(name="noise", uuid=uuid.UUID(int=u.int + 1), module=m)
            sec.module = None
        elif kind == 3:
            holder = ir if not mods or k % 2 else mods[k % len(mods)]
            holder.aux_data["__noise__"] = g.AuxData(1, "uint8_t")
            del holder.aux_data["__noise__"]
        elif kind == 4:
            m = g.Module(name="noise", uuid=u)
            ir.modules.append(m)
            ir.modules.remove(m)
        elif kind == 5:
            bis = list(ir.byte_intervals)
            if bis:
                bi = bis[k % len(bis)]
                b = g.DataBlock(uuid=u, size=1, byte_interval=bi)
                bi.blocks.discard(b)
                # an offset nothing is stored at (the history must have no net effect)
                free = next(o for o in ((1 << 60) + j for j in range(1 << 20)) if o not in bi.symbolic_expressions)
                bi.symbolic_expressions[free] = g.SymAddrConst(0, g.Symbol("x"))
                del bi.symbolic_expressions[free]


def inplace_history(g, case, res, A, dA, L, dL):
    """the same two objects compared after an in-place edit of one of them, and
    once more after the edit is undone (no verdict may be remembered)"""
    for k in case.get("inplace", []):
        undo = inplace_edit(g, L, k)
        if undo is None:
            continue
        res.tag("inplace-edit")
        dL2 = deep_snapshot(g, L)
        pair_check(g, res, A, dA, L, dL2, "A vs save/load copy edited in place (%d)" % (k % 10))
        subnode_checks(g, res, A, dA, L, dL2, "A vs save/load copy edited in place (%d)" % (k % 10), False)
        undo()
        dL3 = deep_snapshot(g, L)
        if dL3 != dL:
            res.fail("C18:harness-undo-failed", snapshot.diff(dL, dL3))
            return
        pair_check(g, res, A, dA, L, dL3, "A vs save/load copy after undoing the edit (%d)" % (k % 10))
        subnode_checks(g, res, A, dA, L, dL3, "A vs save/load copy after undoing the edit (%d)" % (k % 10), True)
        if res.failures:
            return


def run_case(case):
    g = _gt()
    res = pbt.CaseResult()
    spec = case["spec"]
    r = specmod.validate(spec)
    sc = specmod.schema()
    cat = make_catalogue(sc)
    try:
        A = irbuild.build(g, spec, r).ir
        # independent construction: plain top-down route, edges inserted in the
        # opposite order (deep_eq must not depend on insertion / iteration order)
        B0 = irbuild.build(g, spec, None, use_how=False, reverse_edges=True).ir
        buf = io.BytesIO()
        A.save_protobuf_file(buf)
        L = g.IR.load_protobuf_file(io.BytesIO(buf.getvalue()))
    except pbt.CaseTimeout:
        raise
    except Exception as e:
        res.fail(pbt.exception_bucket("C18:build", e), repr(e))
        return res
    if case.get("noise"):
        res.tag("noise-history")
        try:
            noise(g, A, case["noise"])
        except pbt.CaseTimeout:
            raise
        except Exception as e:
            res.fail(pbt.exception_bucket("C18:noise", e), repr(e))
            return res
    dA, dB0, dL = deep_snapshot(g, A), deep_snapshot(g, B0), deep_snapshot(g, L)
    if case.get("inplace_first"):
        # the very first comparison of these objects happens while one is edited
        res.tag("inplace-first")
        inplace_history(g, case, res, A, dA, L, dL)
        if res.failures:
            return res
    pair_check(g, res, A, dA, A, dA, "A vs A")
    pair_check(g, res, A, dA, B0, dB0, "A vs independently built copy")
    pair_check(g, res, A, dA, L, dL, "A vs save/load copy")
    pair_check(g, res, B0, dB0, L, dL, "independent copy vs save/load copy")
    if dA != dB0 or dA != dL:
        res.fail("C18:harness-copies-differ", snapshot.diff(dA, dB0) or snapshot.diff(dA, dL))
        return res
    subnode_checks(g, res, A, dA, L, dL, "A vs save/load copy", True)
    subnode_checks(g, res, A, dA, B0, dB0, "A vs independent copy", True)
    if res.failures:
        return res
    if not case.get("inplace_first"):
        inplace_history(g, case, res, A, dA, L, dL)
        if res.failures:
            return res
    first_module = min((h for h, d in dA["nodes"].items() if d.get("kind") == "Module"), default=None)
    nontrivial = False
    names = sorted(cat) + IR_PERTS
    for pert0 in case.get("perts", []):
        # fall through the catalogue (from the drawn entry on) to the first
        # perturbation that applies to this spec
        out = None
        start = names.index(pert0["p"]) if pert0["p"] in names else 0
        for j in range(len(names)):
            pert = dict(pert0, p=names[(start + j) % len(names)])
            out = perturb(spec, pert, sc, cat)
            if out is not None:
                try:
                    specmod.validate(out[0])
                    break
                except specmod.InvalidSpec:
                    out = None
        if out is None:
            res.tag("pert-not-applicable")
            continue
        new_spec, post = out
        name = pert["p"].split(":")[0]
        res.tag("pert:" + name)
        try:
            Bp = irbuild.build(g, new_spec, None, use_how=bool(pert.get("route")), reverse_edges=bool(pert.get("k", 0) % 2)).ir
            if post == "version":
                Bp.version = Bp.version + 1 + pert.get("k", 0) % 3
        except pbt.CaseTimeout:
            raise
        except Exception as e:
            res.fail(pbt.exception_bucket("C18:build-perturbed", e), "%r: %r" % (pert, e))
            return res
        dP = deep_snapshot(g, Bp)
        res.tag("expected:equal" if dP == dA else "expected:differs")
        pair_check(g, res, A, dA, Bp, dP, "A vs copy perturbed by %s" % pert["p"])
        pair_check(g, res, L, dL, Bp, dP, "save/load copy vs copy perturbed by %s" % pert["p"])
        subnode_checks(g, res, A, dA, Bp, dP, "A vs copy perturbed by %s" % pert["p"], False)
        if res.failures:
            return res
        if dP != dA:
            changed = [h for h in set(dA["nodes"]) | set(dP["nodes"]) if dA["nodes"].get(h) != dP["nodes"].get(h)]
            if any(dA["nodes"].get(h, dP["nodes"].get(h, {})).get("kind") != "IR" and _module_of(dA, dP, h) != first_module for h in changed) or len(changed) > 1:
                nontrivial = True
    res.nontrivial = nontrivial
    return res


def _module_of(dA, dP, h):
    for d in (dA, dP):
        x = h
        for _ in range(6):
            n = d["nodes"].get(x)
            if n is None:
                break
            if n.get("kind") == "Module":
                return x
            x = n.get("parent")
            if x is None:
                break
    return None


def strategy():
    from hypothesis import strategies as st

    sc = specmod.schema()
    names = sorted(make_catalogue(sc)) + IR_PERTS
    pert = st.fixed_dictionaries(
        {"p": st.sampled_from(names), "n": st.integers(0, 30), "k": st.integers(0, 1000), "route": st.booleans()}
    )
    return st.fixed_dictionaries(
        {
            "spec": specmod.specs(max_aux_depth=1),
            "perts": st.lists(pert, min_size=1, max_size=6),
            "noise": st.one_of(st.just([]), st.lists(st.integers(0, 500), min_size=1, max_size=5)),
            "inplace": st.one_of(st.just([]), st.lists(st.integers(0, 400), min_size=1, max_size=4)),
            "inplace_first": st.booleans(),
        }
    )


def run_job(job):
    return pbt.run_hypothesis(strategy(), run_case, prefix=ID, n_examples=job["n"], seed=job["seed"],
                              max_shrink_evals=job.get("shrink", 300))


def replay(doc):
    return run_case(doc["case"])


def jobs(tier, seed):
    n, shards = (3000, 8) if tier == "quick" else (200000, 16)
    return [{"name": "pairs-%d" % k, "kind": "pairs", "n": n // shards, "seed": seed * 1000 + 200 + k,
             "shrink": 300 if tier == "quick" else 1500} for k in range(shards)]
