"""C11: the CFG is a set of edges with consistent adjacency views.

Reference model: a Python set of (source index, target index, label key)
driven in lock step with IR.cfg; after every operation length, iteration,
membership of all 150 possible edges, out_edges/in_edges of every node and the
blocks' own incoming_edges/outgoing_edges are compared with the model.
"""

from vlib import pbt, progs

ID = "C11"
LEVEL = "exploration"
RULE = (
    "cases: Hypothesis op programs (<= 40 ops, swarm-selected opcodes) over 5 CFG nodes (two attached code "
    "blocks, an attached proxy, a detached code block, a proxy of another IR) and 6 labels (None, all-false, "
    "labels differing in one component, an int-valued label equal by value to a bool-valued one): add, "
    "discard, remove, pop, clear, update, |=, &=, -=, ^= (with set, frozenset, another CFG, itself), "
    "construction from an iterable, update with an iterable that raises part-way, and reload (IR A saved, "
    "optionally every edge record written twice, loaded; the history continues on the loaded CFG); non-trivial = two parallel edges (same endpoints, different labels) "
    "coexisted and one of them was removed while the other stayed; distinct = SHA-1 of canonical JSON"
)
ASSUMPTIONS = [
    "operands of the in-place operators are sets (set, frozenset, CFG), as for built-in sets; update takes any iterable",
]
REQUIRED_TAGS = {"quick": ["parallel-removed", "op:ixor", "op:pop", "reload:edge-records-repeated", "failed-op:update"],
                 "thorough": ["parallel-removed", "op:ixor", "op:pop", "reload:edge-records-repeated", "failed-op:update"]}

N_NODES = 5
N_LABELS = 6


def _gt():
    import gtirb

    return gtirb


class World:
    def __init__(self):
        g = _gt()
        import uuid

        U = lambda i: uuid.UUID(int=i)  # noqa
        self.g = g
        self.irA = g.IR(uuid=U(1))
        self.irB = g.IR(uuid=U(2))
        mA = g.Module(name="a", uuid=U(3), ir=self.irA)
        mB = g.Module(name="b", uuid=U(4), ir=self.irB)
        s = g.Section(name="s", uuid=U(5), module=mA)
        bi = g.ByteInterval(uuid=U(6), size=8, section=s)
        self.nodes = [
            g.CodeBlock(uuid=U(10), size=1, offset=0, byte_interval=bi),
            g.CodeBlock(uuid=U(11), size=1, offset=1, byte_interval=bi),
            g.ProxyBlock(uuid=U(12), module=mA),
            g.CodeBlock(uuid=U(13), size=1),
            g.ProxyBlock(uuid=U(14), module=mB),
        ]
        self.home = [0, 0, 0, None, 1]  # which IR's cfg a node's own views read
        T = g.Edge.Type
        L = g.Edge.Label
        self.labels = [
            None,
            L(T.Branch, False, False),
            L(T.Branch, True, False),
            L(T.Branch, False, True),
            L(T.Call, False, True),
            L(T.Branch, 0, 1),  # equal by value to labels[3]
        ]
        self.cfgs = [self.irA.cfg, self.irB.cfg]
        self.models = [set(), set()]

    def lkey(self, label):
        if label is None:
            return None
        return (label.type, bool(label.conditional), bool(label.direct))

    def edge(self, s, t, l):
        return self.g.Edge(self.nodes[s % N_NODES], self.nodes[t % N_NODES], self.labels[l % N_LABELS])

    def key(self, s, t, l):
        return (s % N_NODES, t % N_NODES, self.lkey(self.labels[l % N_LABELS]))

    def key_of(self, e):
        idx = {id(n): i for i, n in enumerate(self.nodes)}
        return (idx.get(id(e.source), -1), idx.get(id(e.target), -1), self.lkey(e.label))


def check_state(w, res, where, touched=None):
    g = w.g
    for gi, (cfg, model) in enumerate(zip(w.cfgs, w.models)):
        tag = "cfg%d" % gi
        full = touched is None or gi in touched
        if len(cfg) != len(model):
            res.fail("C11:len", "%s after %s: len %d, model %d" % (tag, where, len(cfg), len(model)))
        it = [w.key_of(e) for e in cfg]
        if len(it) != len(set(it)):
            res.fail("C11:iter-duplicates", "%s after %s: %r" % (tag, where, it))
        if set(it) != model:
            res.fail("C11:iter-contents", "%s after %s: %r vs model %r" % (tag, where, sorted(map(str, it)), sorted(map(str, model))))
        for e in cfg:
            if not isinstance(e, g.Edge):
                res.fail("C11:iter-type", repr(e))
        for s in range(N_NODES if full else 0):
            for t in range(N_NODES):
                for l in range(N_LABELS):
                    want = w.key(s, t, l) in model
                    got = w.edge(s, t, l) in cfg
                    if got is not want:
                        res.fail("C11:membership", "%s after %s: %r in cfg is %r, model %r" % (tag, where, w.key(s, t, l), got, want))
                        break
        if ("x" in cfg) is not False or ((w.nodes[0], w.nodes[1], None) in cfg and (0, 1, None) not in model):
            res.fail("C11:membership-foreign-object", where)
        for i, n in enumerate(w.nodes):
            for name, pos in (("out_edges", 0), ("in_edges", 1)):
                got = [w.key_of(e) for e in getattr(cfg, name)(n)]
                want = {k for k in model if k[pos] == i}
                if len(got) != len(set(got)) or set(got) != want:
                    res.fail("C11:" + name, "%s after %s: node %d: %r vs model %r" % (tag, where, i, got, sorted(map(str, want))))
    for i, n in enumerate(w.nodes):
        home = w.home[i]
        for name, pos in (("outgoing_edges", 0), ("incoming_edges", 1)):
            got = [w.key_of(e) for e in getattr(n, name)]
            want = set() if home is None else {k for k in w.models[home] if k[pos] == i}
            if len(got) != len(set(got)) or set(got) != want:
                res.fail("C11:block-" + name, "after %s: node %d: %r vs model %r" % (where, i, got, sorted(map(str, want))))


def operand(w, op, gi):
    """(python operand, model set) for the set-valued ops."""
    kind = op.get("kind", "set")
    es = op.get("es", [])
    keys = {w.key(*e) for e in es}
    edges = [w.edge(*e) for e in es]
    if kind == "self":
        return w.cfgs[gi], set(w.models[gi])
    if kind == "other":
        return w.cfgs[1 - gi], set(w.models[1 - gi])
    if kind == "cfg":
        return w.g.CFG(edges), keys
    if kind == "frozenset":
        return frozenset(edges), keys
    if kind == "list":
        return edges, keys
    return set(edges), keys


def run_case(case):
    res = pbt.CaseResult()
    w = World()
    saw_parallel_removed = False
    check_state(w, res, "init")
    for n, op in enumerate(case["ops"]):
        name = op["op"]
        gi = op.get("g", 0) % 2
        cfg, model = w.cfgs[gi], w.models[gi]
        before = set(model)
        where = "op %d %s" % (n, name)
        res.tag("op:" + name)
        try:
            if name == "add":
                r = cfg.add(w.edge(op["s"], op["t"], op["l"]))
                model.add(w.key(op["s"], op["t"], op["l"]))
                if r is not None:
                    res.fail("C11:add-returns", repr(r))
            elif name == "discard":
                cfg.discard(w.edge(op["s"], op["t"], op["l"]))
                model.discard(w.key(op["s"], op["t"], op["l"]))
            elif name == "remove":
                k = w.key(op["s"], op["t"], op["l"])
                try:
                    cfg.remove(w.edge(op["s"], op["t"], op["l"]))
                    raised = None
                except KeyError as e:
                    raised = e
                if k in model:
                    model.discard(k)
                    if raised is not None:
                        res.fail("C11:remove-present-raises", where)
                elif raised is None:
                    res.fail("C11:remove-absent-no-KeyError", where)
            elif name == "pop":
                try:
                    e = cfg.pop()
                    raised = None
                except KeyError as ex:
                    raised = ex
                if not model:
                    if raised is None:
                        res.fail("C11:pop-empty-no-KeyError", where)
                elif raised is not None:
                    res.fail("C11:pop-nonempty-raises", where)
                else:
                    k = w.key_of(e)
                    if k not in model:
                        res.fail("C11:pop-returns-nonmember", "%s: %r" % (where, k))
                    model.discard(k)
            elif name == "clear":
                cfg.clear()
                model.clear()
            elif name == "update" and op.get("kind") == "boom":
                # the argument fails after yielding k edges: the exception comes
                # out, and the CFG holds the consumed prefix (or nothing new)
                es = op.get("es", [])
                k = op.get("bk", 0) % (len(es) + 1)

                class Boom(Exception):
                    pass

                def gen():
                    for e in es[:k]:
                        yield w.edge(*e)
                    raise Boom()

                res.tag("failed-op:update")
                try:
                    cfg.update(gen())
                    res.fail("C11:failed-update-exception-swallowed", where)
                except Boom:
                    pass
                prefix = {w.key(*e) for e in es[:k]}
                real = {w.key_of(e) for e in cfg}
                if real == model | prefix:
                    model |= prefix
                elif real != model:
                    res.fail("C11:failed-update-contents", "%s: neither the consumed prefix nor nothing was added" % where)
                    return res
            elif name == "update":
                other, keys = operand(w, op, gi)
                cfg.update(other)
                model |= keys
            elif name in ("ior", "iand", "isub", "ixor"):
                if op.get("kind") == "list":
                    op = dict(op, kind="set")
                other, keys = operand(w, op, gi)
                if name == "ior":
                    cfg |= other
                    model |= keys
                elif name == "iand":
                    cfg &= other
                    model &= keys
                elif name == "isub":
                    cfg -= other
                    model -= keys
                else:
                    cfg ^= other
                    model ^= keys
                if cfg is not w.cfgs[gi]:
                    res.fail("C11:inplace-op-rebinds", where)
                    w.cfgs[gi] = cfg
                if op.get("kind") == "other":
                    pass  # operand cfg must be unchanged: checked by check_state via its model
            elif name == "reload":
                # IR A is saved, every edge record of the file is written twice
                # (a file may repeat a record; the CFG is a set), and the file is
                # loaded: the history continues on the loaded IR
                if any(k[0] > 2 or k[1] > 2 for k in w.models[0]) or any(k[0] <= 2 or k[1] <= 2 for k in w.models[1]):
                    res.tag("reload:not-self-contained")
                else:
                    import io
                    from gtirb.proto import IR_pb2

                    buf = io.BytesIO()
                    w.irA.save_protobuf_file(buf)
                    data = buf.getvalue()
                    msg = IR_pb2.IR()
                    msg.ParseFromString(data[8:])
                    recs = list(msg.cfg.edges)
                    if op.get("dup"):
                        for rec in reversed(recs):
                            msg.cfg.edges.add().CopyFrom(rec)
                        res.tag("reload:edge-records-repeated")
                    ir2 = w.g.IR.load_protobuf_file(io.BytesIO(data[:8] + msg.SerializeToString()))
                    for i in (0, 1, 2):
                        n2 = ir2.get_by_uuid(w.nodes[i].uuid)
                        if n2 is None:
                            res.fail("C11:reload-lost-node", where)
                            return res
                        w.nodes[i] = n2
                    w.irA = ir2
                    w.cfgs[0] = ir2.cfg
                    res.tag("reload:done")
            elif name == "construct":
                es = op.get("es", [])
                fresh = w.g.CFG([w.edge(*e) for e in es])
                want = {w.key(*e) for e in es}
                got = [w.key_of(e) for e in fresh]
                if len(got) != len(set(got)) or set(got) != want or len(fresh) != len(want):
                    res.fail("C11:constructor", "%s: %r vs %r" % (where, got, want))
            else:
                raise ValueError("unknown op %r" % name)
        except pbt.CaseTimeout:
            raise
        except Exception as e:
            res.fail(pbt.exception_bucket("C11:op-" + name, e), "%s: %r" % (where, e))
            return res
        # parallel-edge bookkeeping for the non-triviality rule
        removed = before - model
        for (s, t, l) in removed:
            if any(k[0] == s and k[1] == t and k[2] != l for k in model) and any(
                k[0] == s and k[1] == t and k[2] != l for k in before
            ):
                saw_parallel_removed = True
        touched = {gi}
        if op.get("kind") in ("other",):
            touched.add(1 - gi)
        check_state(w, res, where, touched)
        if res.failures:
            return res
    check_state(w, res, "end")
    if saw_parallel_removed:
        res.nontrivial = True
        res.tag("parallel-removed")
    return res


def strategy():
    from hypothesis import strategies as st

    node = st.integers(0, N_NODES - 1)
    # endpoints biased to a hot pair so that parallel edges are common
    s_ = st.one_of(st.just(0), st.just(0), node)
    t_ = st.one_of(st.just(1), st.just(1), st.just(0), node)
    l_ = st.integers(0, N_LABELS - 1)
    g_ = st.sampled_from([0, 0, 0, 1])
    edge = st.tuples(s_, t_, l_).map(list)
    es = st.lists(edge, max_size=5)
    kind = st.sampled_from(["set", "set", "frozenset", "cfg", "self", "other", "list"])
    ops = {
        "add": progs.op("add", s=s_, t=t_, l=l_, g=g_),
        "discard": progs.op("discard", s=s_, t=t_, l=l_, g=g_),
        "remove": progs.op("remove", s=s_, t=t_, l=l_, g=g_),
        "pop": progs.op("pop", g=g_),
        "clear": progs.op("clear", g=g_),
        "update": progs.op("update", es=es, kind=st.one_of(kind, kind, kind, st.just("boom")), g=g_, bk=st.integers(0, 5)),
        "ior": progs.op("ior", es=es, kind=kind, g=g_),
        "iand": progs.op("iand", es=es, kind=kind, g=g_),
        "isub": progs.op("isub", es=es, kind=kind, g=g_),
        "ixor": progs.op("ixor", es=es, kind=kind, g=g_),
        "construct": progs.op("construct", es=es),
        "reload": progs.op("reload", dup=st.booleans()),
    }
    return progs.programs(ops, max_len=40, always=("add", "discard")).map(lambda p: {"ops": p})


def run_job(job):
    return pbt.run_hypothesis(strategy(), run_case, prefix=ID, n_examples=job["n"], seed=job["seed"],
                              max_shrink_evals=job.get("shrink", 400))


def replay(doc):
    return run_case(doc["case"])


def jobs(tier, seed):
    n, shards = (6000, 8) if tier == "quick" else (300000, 16)
    return [{"name": "hist-%d" % k, "kind": "hist", "n": n // shards, "seed": seed * 1000 + k,
             "shrink": 400 if tier == "quick" else 2000} for k in range(shards)]
