"""C06: interval and section lookups and section extents equal a fresh scan.

Engine vlib.scan (see C05).  byte_intervals_on/at at section / module / IR
scope and sections_on/at at module / IR scope must return exactly, each once,
what a scan of the model selects ('on': address known, size non-zero, range
intersects [start, stop); 'at': address is a member of the range incl. step).
Section.address / Section.size must be (None, None) unless the section has at
least one interval and all have addresses, else (lowest address, highest end -
lowest address).
"""

from vlib import pbt, scangen
from checks import c05_blocks

ID = "C06"
FAMS = ["intervals", "sections", "extent"]
LEVEL = "exploration"
RULE = (
    "cases: the edit programs of C05 with the mix shifted to interval address edits (to and from None, 0, near 2^64), "
    "interval size edits (0 included), interval moves between sections (attribute / add / discard), section and module "
    "moves, save+load; lookups byte_intervals_on/at, sections_on/at and Section.address/size interleaved and in a final "
    "battery over all interval edges +-1; non-trivial = a lookup with a non-empty answer (or an extent query) is issued "
    "after an edit that followed an earlier lookup; distinct = SHA-1 of canonical JSON"
)
ASSUMPTIONS = c05_blocks.ASSUMPTIONS
REQUIRED_TAGS = {
    "quick": ["requery-after-edit", "regime:pending<size", "regime:pending>size", "op:saveload", "op:bi_move", "op:bi_addr"],
    "thorough": ["requery-after-edit", "regime:pending<size", "regime:pending=size", "regime:pending>size", "op:saveload", "op:bi_move", "op:bi_addr"],
}
PREFIXES = ("intervals:", "sections:", "extent:", "scan:")


def run_case(case):
    res = pbt.CaseResult()
    c05_blocks.run_program(case, res, PREFIXES, FAMS, ID)
    return res


def strategy():
    return scangen.cases(FAMS, max_len=30, blocks=False)


def run_job(job):
    return pbt.run_hypothesis(strategy(), run_case, prefix=ID, n_examples=job["n"], seed=job["seed"],
                              max_shrink_evals=job.get("shrink", 150))


def replay(doc):
    return run_case(doc["case"])


def jobs(tier, seed):
    n, shards = (4000, 8) if tier == "quick" else (240000, 16)
    return [{"name": "hist-%d" % k, "kind": "hist", "n": n // shards, "seed": seed * 1000 + 600 + k,
             "shrink": 150 if tier == "quick" else 1500} for k in range(shards)]
