package com.google.protobuf;

/** Minimal stand-in for protobuf-java's ByteString: com.grammatech.gtirb.Util
 *  imports it for two helpers that the AuxData codecs never call. */
public final class ByteString {
    public static final ByteString EMPTY = new ByteString(new byte[0]);
    private final byte[] data;
    private ByteString(byte[] d) { this.data = d; }
    public static ByteString copyFrom(byte[] b) { return new ByteString(b.clone()); }
    public byte[] toByteArray() { return data.clone(); }
}
