import com.grammatech.gtirb.Offset;
import com.grammatech.gtirb.Util;
import com.grammatech.gtirb.auxdatacodec.*;
import com.grammatech.gtirb.tuple.*;
import com.grammatech.gtirb.variant.*;
import java.io.*;
import java.nio.charset.StandardCharsets;
import java.util.*;

/**
 * Cross-check driver for property C08.  Reads lines "<type name>\t<hex>" on
 * stdin; for each, builds the repository's Java codec for that type, decodes
 * the bytes, and prints "OK\t<canonical rendering>\t<hex of Java re-encoding>\t<bytes consumed>"
 * or "ERR\t<message>".
 */
@SuppressWarnings({"unchecked", "rawtypes"})
public class AuxDriver {
    static class T1 extends Tuple1 { T1(Object a) { super(a); } }
    static class T2 extends Tuple2 { T2(Object a, Object b) { super(a, b); } }
    static class T3 extends Tuple3 { T3(Object a, Object b, Object c) { super(a, b, c); } }
    static class T4 extends Tuple4 { T4(Object a, Object b, Object c, Object d) { super(a, b, c, d); } }
    static class T5 extends Tuple5 { T5(Object a, Object b, Object c, Object d, Object e) { super(a, b, c, d, e); } }
    static class V2 extends Variant2 {
        V2(Token.T0 t, Object o) { super(t, o); }
        V2(Token.T1 t, Object o) { super(t, o); }
    }
    static class V3 extends Variant3 {
        V3(Token.T0 t, Object o) { super(t, o); }
        V3(Token.T1 t, Object o) { super(t, o); }
        V3(Token.T2 t, Object o) { super(t, o); }
    }
    static class V11 extends Variant11 {
        V11(Token.T0 t, Object o) { super(t, o); }
        V11(Token.T1 t, Object o) { super(t, o); }
        V11(Token.T2 t, Object o) { super(t, o); }
        V11(Token.T3 t, Object o) { super(t, o); }
        V11(Token.T4 t, Object o) { super(t, o); }
        V11(Token.T5 t, Object o) { super(t, o); }
        V11(Token.T6 t, Object o) { super(t, o); }
        V11(Token.T7 t, Object o) { super(t, o); }
        V11(Token.T8 t, Object o) { super(t, o); }
        V11(Token.T9 t, Object o) { super(t, o); }
        V11(Token.T10 t, Object o) { super(t, o); }
    }

    // ---- type-name parser (names are ASCII identifiers here) ----
    static class TypeNode {
        String name;
        List<TypeNode> subs = new ArrayList<>();
    }
    static int pos;
    static TypeNode parseType(String s) {
        pos = 0;
        TypeNode t = parseT(s);
        if (pos != s.length()) throw new RuntimeException("trailing text in type name");
        return t;
    }
    static TypeNode parseT(String s) {
        int start = pos;
        while (pos < s.length() && "<>,".indexOf(s.charAt(pos)) < 0) pos++;
        if (pos == start) throw new RuntimeException("name expected");
        TypeNode t = new TypeNode();
        t.name = s.substring(start, pos);
        if (pos < s.length() && s.charAt(pos) == '<') {
            pos++;
            t.subs.add(parseT(s));
            while (pos < s.length() && s.charAt(pos) == ',') { pos++; t.subs.add(parseT(s)); }
            if (pos >= s.length() || s.charAt(pos) != '>') throw new RuntimeException("'>' expected");
            pos++;
        }
        return t;
    }

    static Codec build(TypeNode t) {
        List<Codec> c = new ArrayList<>();
        for (TypeNode s : t.subs) c.add(build(s));
        switch (t.name) {
        case "bool": return new BoolCodec();
        case "int8_t": return ByteCodec.INT8;
        case "uint8_t": return ByteCodec.UINT8;
        case "int16_t": return ShortCodec.INT16;
        case "uint16_t": return ShortCodec.UINT16;
        case "int32_t": return IntegerCodec.INT32;
        case "uint32_t": return IntegerCodec.UINT32;
        case "int64_t": return LongCodec.INT64;
        case "uint64_t": return LongCodec.UINT64;
        case "Addr": return LongCodec.UINT64;
        case "float": return new FloatCodec();
        case "string": return new StringCodec();
        case "UUID": return new UuidCodec();
        case "Offset": return new OffsetCodec();
        case "sequence": return new ListCodec(c.get(0), ArrayList::new);
        case "set": return new SetCodec(c.get(0), LinkedHashSet::new);
        case "mapping": return new MapCodec(c.get(0), c.get(1), LinkedHashMap::new);
        case "tuple":
            switch (c.size()) {
            case 1: return new Tuple1Codec(c.get(0), (a) -> new T1(a));
            case 2: return new Tuple2Codec(c.get(0), c.get(1), (a, b) -> new T2(a, b));
            case 3: return new Tuple3Codec(c.get(0), c.get(1), c.get(2), (a, b, d) -> new T3(a, b, d));
            case 4: return new Tuple4Codec(c.get(0), c.get(1), c.get(2), c.get(3), (a, b, d, e) -> new T4(a, b, d, e));
            case 5: return new Tuple5Codec(c.get(0), c.get(1), c.get(2), c.get(3), c.get(4), (a, b, d, e, f) -> new T5(a, b, d, e, f));
            }
            throw new RuntimeException("unsupported tuple arity " + c.size());
        case "variant":
            switch (c.size()) {
            case 2: return new Variant2Codec(c.get(0), c.get(1), (o) -> new V2(new Token.T0(), o), (o) -> new V2(new Token.T1(), o));
            case 3: return new Variant3Codec(c.get(0), c.get(1), c.get(2), (o) -> new V3(new Token.T0(), o), (o) -> new V3(new Token.T1(), o), (o) -> new V3(new Token.T2(), o));
            case 11: return new Variant11Codec(c.get(0), c.get(1), c.get(2), c.get(3), c.get(4), c.get(5), c.get(6), c.get(7), c.get(8), c.get(9), c.get(10),
                (o) -> new V11(new Token.T0(), o), (o) -> new V11(new Token.T1(), o), (o) -> new V11(new Token.T2(), o), (o) -> new V11(new Token.T3(), o),
                (o) -> new V11(new Token.T4(), o), (o) -> new V11(new Token.T5(), o), (o) -> new V11(new Token.T6(), o), (o) -> new V11(new Token.T7(), o),
                (o) -> new V11(new Token.T8(), o), (o) -> new V11(new Token.T9(), o), (o) -> new V11(new Token.T10(), o));
            }
            throw new RuntimeException("unsupported variant arity " + c.size());
        }
        throw new RuntimeException("unsupported type " + t.name);
    }

    static String hex(byte[] b) {
        StringBuilder sb = new StringBuilder();
        for (byte x : b) sb.append(String.format("%02x", x & 0xff));
        return sb.toString();
    }
    static byte[] unhex(String s) {
        byte[] b = new byte[s.length() / 2];
        for (int i = 0; i < b.length; i++) b[i] = (byte)Integer.parseInt(s.substring(2 * i, 2 * i + 2), 16);
        return b;
    }
    // The Java API keeps a UUID as two little-endian longs; what is compared is
    // the 16 raw bytes it reads and writes.
    static String uuidHex(UUID u) { return hex(Util.uuidToByteArray(u)); }

    static Object variantPayload(Object v, int idx) throws Exception {
        Optional o = (Optional)v.getClass().getMethod("get" + idx).invoke(v);
        return o.get();
    }

    static String render(TypeNode t, Object v) throws Exception {
        switch (t.name) {
        case "bool": return ((Boolean)v) ? "true" : "false";
        case "int8_t": case "uint8_t": return Integer.toString(((Byte)v).intValue());
        case "int16_t": case "uint16_t": return Integer.toString(((Short)v).intValue());
        case "int32_t": case "uint32_t": return Integer.toString((Integer)v);
        case "int64_t": case "uint64_t": case "Addr": return Long.toString((Long)v);
        case "float": return String.format("f%08x", Float.floatToRawIntBits((Float)v));
        case "string": return "s" + hex(((String)v).getBytes(StandardCharsets.UTF_8));
        case "UUID": return "u" + uuidHex((UUID)v);
        case "Offset": { Offset o = (Offset)v; return "O(" + uuidHex(o.getElementId()) + "," + o.getDisplacement() + ")"; }
        case "sequence": {
            StringBuilder sb = new StringBuilder("[");
            boolean first = true;
            for (Object x : (List)v) { if (!first) sb.append(","); first = false; sb.append(render(t.subs.get(0), x)); }
            return sb.append("]").toString();
        }
        case "set": {
            List<String> items = new ArrayList<>();
            for (Object x : (Set)v) items.add(render(t.subs.get(0), x));
            Collections.sort(items);
            return "S{" + String.join(",", items) + "}";
        }
        case "mapping": {
            List<String> items = new ArrayList<>();
            for (Object e : ((Map)v).entrySet()) {
                Map.Entry me = (Map.Entry)e;
                items.add(render(t.subs.get(0), me.getKey()) + "=>" + render(t.subs.get(1), me.getValue()));
            }
            Collections.sort(items);
            return "M{" + String.join(",", items) + "}";
        }
        case "tuple": {
            StringBuilder sb = new StringBuilder("T(");
            for (int i = 0; i < t.subs.size(); i++) {
                if (i > 0) sb.append(",");
                sb.append(render(t.subs.get(i), v.getClass().getMethod("get" + i).invoke(v)));
            }
            return sb.append(")").toString();
        }
        case "variant": {
            int idx = (Integer)v.getClass().getMethod("getIndex").invoke(v);
            return "V(" + idx + ":" + render(t.subs.get(idx), variantPayload(v, idx)) + ")";
        }
        }
        throw new RuntimeException("cannot render " + t.name);
    }

    public static void main(String[] args) throws Exception {
        BufferedReader in = new BufferedReader(new InputStreamReader(System.in, StandardCharsets.UTF_8));
        PrintStream out = new PrintStream(new FileOutputStream(FileDescriptor.out), false, "UTF-8");
        String line;
        while ((line = in.readLine()) != null) {
            if (line.isEmpty()) continue;
            try {
                int tab = line.indexOf('\t');
                String tname = line.substring(0, tab);
                byte[] data = unhex(line.substring(tab + 1));
                TypeNode t = parseType(tname);
                Codec codec = build(t);
                if (!codec.getTypeName().equals(tname) && !tname.contains("Addr"))
                    throw new RuntimeException("codec type name " + codec.getTypeName() + " != " + tname);
                ByteArrayInputStream bin = new ByteArrayInputStream(data);
                Object v = codec.decode(bin);
                int consumed = data.length - bin.available();
                ByteArrayOutputStream bout = new ByteArrayOutputStream();
                codec.encode(bout, v);
                out.println("OK\t" + render(t, v) + "\t" + hex(bout.toByteArray()) + "\t" + consumed);
            } catch (Throwable e) {
                out.println("ERR\t" + e.toString().replace('\n', ' ').replace('\t', ' '));
            }
        }
        out.flush();
    }
}
