"""Build an importable `gtirb` package from /repo's *current working tree*.

/repo/python/gtirb lacks two build products (version.py, proto/*_pb2.py) that
CMake + protoc normally generate.  This reproduces both steps from files on
disk (see DESIGN.md section 0.2) into

    /verif/.build/pkg-<sha256 of every input>/gtirb

so identical inputs give the identical directory (safe for parallel shards)
and any edit of a .py / .proto / version.txt gives a new one.

VERIF_REPO=/some/copy redirects the build to a scratch copy of the repository
(used only for sensitivity runs against mutants).
"""

import hashlib
import os
import re
import shutil
import sys
import tempfile
import time

VERIF_ROOT = os.path.dirname(os.path.dirname(os.path.abspath(__file__)))
BUILD_ROOT = os.path.join(VERIF_ROOT, ".build")

PROTO_ORDER_HINT = None  # computed from imports


class BuildError(Exception):
    pass


def repo_root():
    return os.path.abspath(os.environ.get("VERIF_REPO", "/repo"))


def _inputs(repo):
    files = []
    pydir = os.path.join(repo, "python", "gtirb")
    for dirpath, dirnames, filenames in os.walk(pydir):
        dirnames[:] = sorted(d for d in dirnames if d != "__pycache__")
        for fn in sorted(filenames):
            if fn.endswith(".py") and not fn.endswith("_pb2.py") and fn != "version.py":
                files.append(os.path.join(dirpath, fn))
    protodir = os.path.join(repo, "proto")
    for fn in sorted(os.listdir(protodir)):
        if fn.endswith(".proto"):
            files.append(os.path.join(protodir, fn))
    files.append(os.path.join(repo, "version.txt"))
    files.append(os.path.join(repo, "python", "version.py.in"))
    here = os.path.dirname(os.path.abspath(__file__))
    files.append(os.path.join(here, "protoc_lite.py"))
    files.append(os.path.join(here, "build.py"))
    return files


def _digest(repo, files):
    h = hashlib.sha256()
    for path in files:
        rel = os.path.relpath(path, repo) if path.startswith(repo) else os.path.basename(path)
        h.update(rel.encode() + b"\0")
        with open(path, "rb") as f:
            data = f.read()
        h.update(str(len(data)).encode() + b"\0")
        h.update(data)
    return h.hexdigest()[:20]


def read_version_txt(repo):
    vals = {}
    with open(os.path.join(repo, "version.txt")) as f:
        for line in f:
            parts = line.split()
            if len(parts) == 2:
                vals[parts[0]] = parts[1]
    return vals


def _write_version_py(repo, dest):
    vals = read_version_txt(repo)
    subst = {
        "PROJECT_VERSION_MAJOR": vals["VERSION_MAJOR"],
        "PROJECT_VERSION_MINOR": vals["VERSION_MINOR"],
        "PROJECT_VERSION_PATCH": vals["VERSION_PATCH"],
        "GTIRB_PYTHON_DEV_SUFFIX": ".dev",
        "GTIRB_PROTOBUF_VERSION": vals["VERSION_PROTOBUF"],
    }
    with open(os.path.join(repo, "python", "version.py.in")) as f:
        text = f.read()

    def rep(m):
        key = m.group(1)
        if key not in subst:
            raise BuildError("version.py.in: unknown substitution @%s@" % key)
        return subst[key]

    text = re.sub(r"@([A-Za-z_]+)@", rep, text)
    with open(dest, "w") as f:
        f.write(text)


def compile_protos(repo):
    """Return {base: (FileDescriptorProto, module source)} for /repo/proto."""
    from . import protoc_lite

    protodir = os.path.join(repo, "proto")
    asts = {}
    for fn in sorted(os.listdir(protodir)):
        if fn.endswith(".proto"):
            with open(os.path.join(protodir, fn)) as f:
                text = f.read()
            # python/CMakeLists.txt rewrites imports to package paths.
            asts[fn[:-6]] = protoc_lite.parse(text)
    table = {}
    for ast in asts.values():
        protoc_lite.collect_types(ast, table)
    out = {}
    for base, ast in asts.items():
        fdp = protoc_lite.to_file_descriptor(
            ast, "gtirb/proto/%s.proto" % base, table, import_prefix="gtirb/proto/"
        )
        deps = ["gtirb.proto.%s_pb2" % imp[:-6] for imp in ast["imports"]]
        src = protoc_lite.module_source(fdp, "gtirb.proto.%s_pb2" % base, deps)
        out[base] = (fdp, src)
    return out


def _prune(keep):
    now = time.time()
    try:
        entries = os.listdir(BUILD_ROOT)
    except OSError:
        return
    for name in entries:
        path = os.path.join(BUILD_ROOT, name)
        if not name.startswith("pkg-") or path == keep:
            continue
        try:
            age = now - os.path.getmtime(os.path.join(path, ".ok"))
        except OSError:
            try:
                age = now - os.path.getmtime(path)
            except OSError:
                continue
        if age > 3 * 3600:
            shutil.rmtree(path, ignore_errors=True)


def build():
    """Build (or reuse) the package for the current tree; return its parent
    directory (to be put on sys.path)."""
    repo = repo_root()
    if not os.path.isdir(os.path.join(repo, "python", "gtirb")):
        raise BuildError("no python/gtirb under %s" % repo)
    files = _inputs(repo)
    digest = _digest(repo, files)
    dest = os.path.join(BUILD_ROOT, "pkg-" + digest)
    okfile = os.path.join(dest, ".ok")
    if os.path.exists(okfile):
        try:
            os.utime(okfile, None)
        except OSError:
            pass
        return dest
    os.makedirs(BUILD_ROOT, exist_ok=True)
    tmp = tempfile.mkdtemp(prefix="tmp-", dir=BUILD_ROOT)
    try:
        pkg = os.path.join(tmp, "gtirb")
        shutil.copytree(
            os.path.join(repo, "python", "gtirb"),
            pkg,
            ignore=shutil.ignore_patterns("__pycache__", "*.pyc"),
        )
        os.makedirs(os.path.join(pkg, "proto"), exist_ok=True)
        init = os.path.join(pkg, "proto", "__init__.py")
        if not os.path.exists(init):
            open(init, "w").close()
        _write_version_py(repo, os.path.join(pkg, "version.py"))
        try:
            for base, (fdp, src) in compile_protos(repo).items():
                with open(os.path.join(pkg, "proto", base + "_pb2.py"), "w") as f:
                    f.write(src)
        except Exception as e:  # protoc_lite could not digest the schema
            raise BuildError("proto compilation failed: %r" % (e,))
        open(os.path.join(tmp, ".ok"), "w").close()
        try:
            os.rename(tmp, dest)
        except OSError:
            # somebody else produced the identical directory meanwhile
            if not os.path.exists(okfile):
                raise
            shutil.rmtree(tmp, ignore_errors=True)
    except BaseException:
        shutil.rmtree(tmp, ignore_errors=True)
        raise
    _prune(dest)
    return dest


_ACTIVE = None


def activate():
    """Build and import the tree's gtirb; guarantee it is the tree's copy."""
    global _ACTIVE
    if _ACTIVE is not None:
        return _ACTIVE
    if "gtirb" in sys.modules:
        raise BuildError("gtirb imported before build.activate()")
    dest = build()
    sys.path.insert(0, dest)
    import gtirb  # noqa

    got = os.path.realpath(gtirb.__file__)
    if not got.startswith(os.path.realpath(dest) + os.sep):
        raise BuildError("imported gtirb from %s, expected under %s" % (got, dest))
    _ACTIVE = gtirb
    return gtirb


def repo_rev():
    import subprocess

    try:
        rev = subprocess.run(
            ["git", "-C", repo_root(), "rev-parse", "--short", "HEAD"],
            capture_output=True,
            text=True,
            timeout=20,
        ).stdout.strip()
        dirty = subprocess.run(
            ["git", "-C", repo_root(), "status", "--porcelain", "--untracked-files=no"],
            capture_output=True,
            text=True,
            timeout=20,
        ).stdout.strip()
        return rev + ("+dirty" if dirty else "")
    except Exception:
        return "unknown"


def selfcheck():
    """Informational: compare protoc_lite output with the descriptors the real
    protoc produced for the installed gtirb wheel (a different release, so only
    differences are listed, never judged)."""
    import glob

    from google.protobuf import descriptor_pb2

    mine = compile_protos(repo_root())
    site = [p for p in sys.path if p.endswith("site-packages")]
    report = []
    for base, (fdp, _src) in sorted(mine.items()):
        path = None
        for s in site:
            cand = os.path.join(s, "gtirb", "proto", base + "_pb2.py")
            if os.path.exists(cand):
                path = cand
        if path is None:
            report.append((base, "no wheel module"))
            continue
        text = open(path).read()
        m = re.search(r"AddSerializedFile\((b'(?:[^'\\]|\\.)*')\)", text)
        if not m:
            report.append((base, "cannot locate serialized descriptor"))
            continue
        ref = descriptor_pb2.FileDescriptorProto()
        ref.ParseFromString(eval(m.group(1)))
        report.append((base, "equal" if ref == fdp else "differs"))
    return report


if __name__ == "__main__":
    if "--selfcheck" in sys.argv:
        for base, verdict in selfcheck():
            print("%-22s %s" % (base, verdict))
    else:
        print(build())
