"""Structural coherence of an IR returned by the loader (property C17):
C03 (uuid lookup == reachability, UUIDs pairwise distinct), C04 (both ends of
every containment relation agree, single ownership), typing of every
reference, stored bytes <= size, enum-typed attributes are Enum members, and
the IR can be saved and loaded back to an equal snapshot."""

import enum
import io
import uuid as uuidmod

from . import snapshot


def check(g, ir, probes=(), reload=True):
    """-> list of (bucket, detail); empty = coherent"""
    out = []

    def bad(bucket, detail=""):
        out.append((bucket, str(detail)[:600]))

    if not isinstance(ir, g.IR):
        bad("not-an-IR", repr(type(ir)))
        return out
    reach = {}

    def add(n, kind, parent_attr=None, parent=None):
        if not isinstance(n, kind):
            bad("wrong-kind-in-collection", "%r in a collection of %s" % (type(n).__name__, kind.__name__))
        reach.setdefault(n.uuid, []).append(n)
        if parent_attr is not None and getattr(n, parent_attr, None) is not parent:
            bad("child-parent-attribute-disagrees", "%s %s: .%s is %r" % (type(n).__name__, n.uuid, parent_attr, getattr(n, parent_attr, None)))

    reach[ir.uuid] = [ir]
    seen_ids = set()
    mods = list(ir.modules)
    if len(set(map(id, mods))) != len(mods):
        bad("module-listed-twice")
    for m in mods:
        add(m, g.Module, "ir", ir)
        for p in m.proxies:
            add(p, g.ProxyBlock, "module", m)
        for sy in m.symbols:
            add(sy, g.Symbol, "module", m)
        for s in m.sections:
            add(s, g.Section, "module", m)
            for bi in s.byte_intervals:
                add(bi, g.ByteInterval, "section", s)
                for b in bi.blocks:
                    add(b, g.ByteBlock, "byte_interval", bi)
    for u, nodes in reach.items():
        for n in nodes:
            if id(n) in seen_ids:
                bad("node-in-two-places", "%s %s" % (type(n).__name__, u))
            seen_ids.add(id(n))
        if len(nodes) > 1:
            bad("two-attached-nodes-share-a-uuid", "%s: %s" % (u, ", ".join(type(n).__name__ for n in nodes)))
        got = ir.get_by_uuid(u)
        if got is not nodes[0] and len(nodes) == 1:
            bad("get_by_uuid-disagrees-with-tree", "%s: lookup gives %s, tree holds %s" % (u, type(got).__name__, type(nodes[0]).__name__))
    for u in probes:
        if u not in reach and ir.get_by_uuid(u) is not None:
            bad("get_by_uuid-finds-unattached-node", "%s -> %s" % (u, type(ir.get_by_uuid(u)).__name__))

    def attached(n):
        return any(x is n for x in reach.get(getattr(n, "uuid", None), []))

    for m in mods:
        for attr, cls in (("isa", g.Module.ISA), ("file_format", g.Module.FileFormat), ("byte_order", g.Module.ByteOrder)):
            if not isinstance(getattr(m, attr), cls):
                bad("enum-attribute-not-a-member", "Module.%s = %r" % (attr, getattr(m, attr)))
        if not isinstance(m.name, str) or not isinstance(m.binary_path, str):
            bad("attribute-type", "module name")
        ep = m.entry_point
        if ep is not None and not (isinstance(ep, g.CodeBlock) and attached(ep)):
            bad("entry-point-not-an-attached-code-block", repr(ep))
        for sy in m.symbols:
            r = sy.referent
            if r is not None and not (isinstance(r, g.Block) and attached(r)):
                bad("referent-not-an-attached-block", repr(r))
            if sy.value is not None and (not isinstance(sy.value, int) or sy.referent is not None):
                bad("symbol-payload-ill-typed", repr(sy.value))
        for s in m.sections:
            for f in s.flags:
                if not isinstance(f, g.Section.Flag):
                    bad("enum-attribute-not-a-member", "Section flag %r" % (f,))
            for bi in s.byte_intervals:
                if len(bi.contents) > bi.size:
                    bad("stored-bytes-exceed-size", "%d > %d" % (len(bi.contents), bi.size))
                if bi.address is not None and not isinstance(bi.address, int):
                    bad("attribute-type", "address")
                for b in bi.blocks:
                    if isinstance(b, g.CodeBlock) and not isinstance(b.decode_mode, g.CodeBlock.DecodeMode):
                        bad("enum-attribute-not-a-member", "decode_mode %r" % (b.decode_mode,))
                for off, x in bi.symbolic_expressions.items():
                    if not isinstance(x, (g.SymAddrConst, g.SymAddrAddr)):
                        bad("expression-ill-typed", repr(type(x)))
                        continue
                    for sym in x.symbols:
                        if not (isinstance(sym, g.Symbol) and attached(sym)):
                            bad("expression-symbol-not-an-attached-symbol", repr(sym))
                    for a in x.attributes:
                        if not isinstance(a, (int, g.SymbolicExpression.Attribute)) or isinstance(a, bool):
                            bad("expression-attribute-ill-typed", repr(a))
    for e in ir.cfg:
        for end in (e.source, e.target):
            if not (isinstance(end, g.CfgNode) and attached(end)):
                bad("cfg-endpoint-not-an-attached-cfg-node", repr(end))
        if e.label is not None and not isinstance(e.label.type, g.Edge.Type):
            bad("enum-attribute-not-a-member", "edge type %r" % (e.label.type,))
    if out:
        return out
    # can be saved again, and the result loads back to the same content
    try:
        buf = io.BytesIO()
        ir.save_protobuf_file(buf)
    except Exception as e:  # noqa
        bad("accepted-ir-cannot-be-saved:" + type(e).__name__, repr(e))
        return out
    if not reload:
        return out
    try:
        ir2 = g.IR.load_protobuf_file(io.BytesIO(buf.getvalue()))
    except Exception:  # noqa
        # The property demands that an accepted IR can be *saved* again; a
        # merged-duplicate IR may legitimately save to a file whose references
        # cross modules in the wrong order, which the loader refuses.
        return out
    d = snapshot.diff(snapshot.snapshot(g, ir, aux_values=False), snapshot.snapshot(g, ir2, aux_values=False))
    if d:
        bad("resaved-file-differs", d)
    return out


def uuids_in_message(msg):
    """every 16-byte UUID-typed field of an IR message (probes for lookups)"""
    out = set()

    def u(b):
        if len(b) == 16:
            out.add(uuidmod.UUID(bytes=bytes(b)))

    u(msg.uuid)
    for pm in msg.modules:
        u(pm.uuid)
        u(pm.entry_point)
        for p in pm.proxies:
            u(p.uuid)
        for sy in pm.symbols:
            u(sy.uuid)
            u(sy.referent_uuid)
        for ps in pm.sections:
            u(ps.uuid)
            for pi in ps.byte_intervals:
                u(pi.uuid)
                for pb in pi.blocks:
                    u(pb.code.uuid)
                    u(pb.data.uuid)
                for k in pi.symbolic_expressions:
                    pe = pi.symbolic_expressions[k]
                    u(pe.addr_const.symbol_uuid)
                    u(pe.addr_addr.symbol1_uuid)
                    u(pe.addr_addr.symbol2_uuid)
    for e in msg.cfg.edges:
        u(e.source_uuid)
        u(e.target_uuid)
    for v in msg.cfg.vertices:
        u(v)
    return out
