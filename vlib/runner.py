"""Check driver: builds the tree, fans jobs out to worker subprocesses, merges
their results, applies the known-findings file, writes replay files and the
evidence file, and sets the exit code.

Exit codes: 0 held on everything explored; 1 at least one
`VIOLATION property=<id> replay=<path>` line; 2 infrastructure error
(build failed, dependency missing, worker crashed, vacuous generator).
"""

import importlib
import json
import os
import subprocess
import sys
import time

from . import build
from .pbt import canon

VERIF_ROOT = build.VERIF_ROOT
PYTHON = sys.executable


def _no_aslr_prefix():
    """`setarch -R`: with address-space randomisation off, id()-based set
    iteration inside gtirb (sets of nodes) is reproducible from run to run."""
    import shutil

    exe = shutil.which("setarch")
    if not exe:
        return []
    try:
        ok = subprocess.run([exe, "-R", "true"], capture_output=True, timeout=10).returncode == 0
    except Exception:
        ok = False
    return [exe, "-R"] if ok else []


NO_ASLR = _no_aslr_prefix()


def log(msg):
    sys.stdout.write(msg + "\n")
    sys.stdout.flush()


def load_known_findings():
    path = os.path.join(VERIF_ROOT, "known_findings.json")
    if not os.path.exists(path):
        return []
    with open(path) as f:
        return json.load(f).get("findings", [])


def _worker_env(extra):
    env = dict(os.environ)
    env["PYTHONHASHSEED"] = "0"
    env.pop("PROTOCOL_BUFFERS_PYTHON_IMPLEMENTATION", None)
    env["PYTHONPATH"] = VERIF_ROOT + (
        os.pathsep + env["PYTHONPATH"] if env.get("PYTHONPATH") else ""
    )
    env.update(extra or {})
    return env


def run_jobs(modname, jobs, nproc, timeout_s):
    """Run each job in its own interpreter; return list of (job, result)."""
    jobdir = os.path.join(build.BUILD_ROOT, "jobs", "%d-%d" % (os.getpid(), int(time.time())))
    os.makedirs(jobdir, exist_ok=True)
    pending = list(enumerate(jobs))
    running = []
    done = {}
    t_start = time.time()
    try:
        while pending or running:
            while pending and len(running) < nproc:
                idx, job = pending.pop(0)
                jf = os.path.join(jobdir, "job%d.json" % idx)
                of = os.path.join(jobdir, "out%d.json" % idx)
                with open(jf, "w") as f:
                    json.dump(job, f)
                ef = open(os.path.join(jobdir, "err%d.txt" % idx), "w+")
                p = subprocess.Popen(
                    NO_ASLR + [PYTHON, "-m", "vlib.worker", modname, jf, of],
                    cwd=VERIF_ROOT,
                    env=_worker_env(job.get("env")),
                    stdout=ef,
                    stderr=subprocess.STDOUT,
                )
                running.append((idx, job, p, of, ef, time.time()))
            still = []
            for idx, job, p, of, ef, t0 in running:
                rc = p.poll()
                if rc is None:
                    if time.time() - t0 > timeout_s:
                        p.kill()
                        p.wait()
                        done[idx] = (job, {"errors": ["job %s: watchdog expired after %ds (inconclusive)" % (job.get("name"), timeout_s)]})
                        ef.close()
                    else:
                        still.append((idx, job, p, of, ef, t0))
                    continue
                ef.seek(0)
                tail = ef.read()[-3000:]
                ef.close()
                if rc != 0 or not os.path.exists(of):
                    done[idx] = (job, {"errors": ["job %s: worker exit %s\n%s" % (job.get("name"), rc, tail)]})
                else:
                    with open(of) as f:
                        done[idx] = (job, json.load(f))
            running = still
            if running:
                time.sleep(0.05)
    finally:
        for idx, job, p, of, ef, t0 in running:
            try:
                p.kill()
            except OSError:
                pass
        import shutil

        shutil.rmtree(jobdir, ignore_errors=True)
    return [done[i] for i in sorted(done)]


def merge(results, max_samples=6):
    total = {
        "evaluations": 0,
        "hashes": set(),
        "samples": [],
        "counters": {},
        "failures": {},
        "errors": [],
        "extra": {},
        "nontrivial_count": 0,
    }
    for job, r in results:
        total["evaluations"] += r.get("evaluations", 0)
        total["nontrivial_count"] += r.get("nontrivial_count", 0)
        total["hashes"].update(r.get("nontrivial_hashes", []))
        for k, v in r.get("counters", {}).items():
            total["counters"][k] = total["counters"].get(k, 0) + v
        for k, v in r.get("extra", {}).items():
            total["extra"].setdefault(k, v)
        total["errors"].extend(r.get("errors", []))
        for f in r.get("failures", []):
            f = dict(f)
            f["job"] = {k: v for k, v in job.items() if k != "env"}
            f["env"] = job.get("env", {})
            cur = total["failures"].get(f["bucket"])
            if cur is None or len(canon(f["case"])) < len(canon(cur["case"])):
                if cur is not None:
                    f["hits"] = f.get("hits", 1) + cur.get("hits", 1)
                total["failures"][f["bucket"]] = f
            else:
                cur["hits"] = cur.get("hits", 1) + f.get("hits", 1)
    # samples: round-robin across jobs so every job kind is represented
    pools = [list(r.get("samples", [])) for _, r in results]
    while len(total["samples"]) < max_samples and any(pools):
        for p in pools:
            if p and len(total["samples"]) < max_samples:
                total["samples"].append(p.pop(0))
    return total


def _safe_name(s):
    return "".join(c if c.isalnum() or c in "-_." else "_" for c in s)[:80]


def write_replay(mod, failure, seed, tier):
    outdir = os.path.join(VERIF_ROOT, "replays", "out")
    os.makedirs(outdir, exist_ok=True)
    path = os.path.join(outdir, "%s-%s-s%d.json" % (mod.ID, _safe_name(failure["bucket"]), seed))
    doc = {
        "property": mod.ID,
        "bucket": failure["bucket"],
        "job": failure.get("job", {}),
        "env": failure.get("env", {}),
        "case": failure["case"],
        "detail": failure.get("detail", ""),
        "hits": failure.get("hits", 1),
        "seed": seed,
        "tier": tier,
        "repo_rev": build.repo_rev(),
    }
    with open(path, "w") as f:
        json.dump(doc, f, indent=1, sort_keys=True)
    return os.path.relpath(path, VERIF_ROOT)


def write_evidence(mod, tier, seed, total, violations, wall, known_lines):
    cov = {
        "evaluations": int(total["evaluations"]),
        "distinct_nontrivial": len(total["hashes"]) + total["nontrivial_count"],
        "rule": mod.RULE,
        "samples": total["samples"],
        "counters": dict(sorted(total["counters"].items())),
        "excluded_known": known_lines,
    }
    cov.update(total.get("extra", {}))
    doc = {
        "property_id": mod.ID,
        "tier": tier,
        "seed": seed,
        "level": mod.LEVEL,
        "coverage": cov,
        "assumptions": list(getattr(mod, "ASSUMPTIONS", [])),
        "wall_s": round(wall, 2),
        "violations": violations,
        "repo_rev": build.repo_rev(),
    }
    evdir = os.path.join(VERIF_ROOT, "evidence")
    os.makedirs(evdir, exist_ok=True)
    path = os.path.join(evdir, mod.ID + ".json")
    tmp = path + ".tmp%d" % os.getpid()
    with open(tmp, "w") as f:
        json.dump(doc, f, indent=1, sort_keys=True, default=str)
        f.write("\n")
    os.replace(tmp, path)
    return path


def regress_files(prop_id):
    d = os.path.join(VERIF_ROOT, "replays", "regress")
    if not os.path.isdir(d):
        return []
    return sorted(
        os.path.join("replays", "regress", fn)
        for fn in os.listdir(d)
        if fn.startswith(prop_id + "-") and fn.endswith(".json")
    )


def main(modname, tier, replay=None):
    t0 = time.time()
    seed = int(os.environ.get("VERIF_SEED", "1") or "1")
    try:
        from . import bootstrap

        bootstrap.ensure()
        build.build()
        mod = importlib.import_module(modname)
    except Exception as e:  # infrastructure
        log("HARNESS-ERROR: %r" % (e,))
        return 2

    nproc = int(os.environ.get("VERIF_NPROC", "8" if tier == "quick" else "16"))
    timeout_s = 900 if tier == "quick" else 6 * 3600

    if replay is not None:
        with open(replay) as f:
            doc = json.load(f)
        job = {"name": "replay", "kind": "replay", "doc": doc, "env": doc.get("env", {})}
        results = run_jobs(modname, [job], 1, timeout_s)
        total = merge(results)
        if total["errors"]:
            for e in total["errors"]:
                log("HARNESS-ERROR: " + e)
            return 2
        if total["failures"]:
            for b in sorted(total["failures"]):
                log("  bucket %s: %s" % (b, total["failures"][b].get("detail", "")[:400]))
            log("VIOLATION property=%s replay=%s" % (mod.ID, replay))
            return 1
        log("replay: property %s held on %s" % (mod.ID, replay))
        return 0

    # replay files of earlier runs of this property would only confuse
    outdir = os.path.join(VERIF_ROOT, "replays", "out")
    if os.path.isdir(outdir):
        for fn in os.listdir(outdir):
            if fn.startswith(mod.ID + "-"):
                try:
                    os.remove(os.path.join(outdir, fn))
                except OSError:
                    pass
    jobs = list(mod.jobs(tier, seed))
    reg = regress_files(mod.ID)
    if reg:
        jobs.insert(0, {"name": "regress", "kind": "regress", "files": reg})
    results = run_jobs(modname, jobs, nproc, timeout_s)
    total = merge(results)

    known = [k for k in load_known_findings() if k.get("property") == mod.ID and k.get("status") == "open"]
    known_lines = []
    violations = []
    for bucket in sorted(total["failures"]):
        f = total["failures"][bucket]
        match = [k for k in known if k.get("bucket") == bucket and len(canon(f["case"])) >= k.get("case_min_chars", 0)]
        if match:
            continue
        violations.append(f)
    for k in known:
        hit = total["failures"].get(k.get("bucket"))
        if hit is not None and len(canon(hit["case"])) < k.get("case_min_chars", 0):
            hit = None
        line = "KNOWN-FINDING: property=%s %s" % (mod.ID, k.get("what", k.get("id", "")))
        if hit is None:
            line += " [not reproduced in this run]"
        if hit is not None:
            try:
                line += " replay=" + write_replay(mod, dict(hit, bucket="known-" + hit["bucket"]), seed, tier)
            except Exception:  # noqa
                pass
        log(line)
        known_lines.append({"id": k.get("id"), "bucket": k.get("bucket"), "hits": (hit or {}).get("hits", 0)})

    rc = 0
    for f in violations[:12]:
        path = write_replay(mod, f, seed, tier)
        log("  bucket %s (%d hits): %s" % (f["bucket"], f.get("hits", 1), f.get("detail", "").strip().splitlines()[-1][:300] if f.get("detail", "").strip() else ""))
        log("VIOLATION property=%s replay=%s" % (mod.ID, path))
        rc = 1

    errors = list(total["errors"])
    if len(total["hashes"]) + total["nontrivial_count"] < 2 and not errors:
        errors.append("vacuous run: fewer than 2 distinct non-trivial cases")
    min_classes = getattr(mod, "REQUIRED_TAGS", {}).get(tier, [])
    for tag in min_classes:
        if total["counters"].get(tag, 0) == 0:
            errors.append("vacuous run: required case class %r never generated" % tag)

    wall = time.time() - t0
    try:
        write_evidence(mod, tier, seed, total, len(violations), wall, known_lines)
    except Exception as e:
        errors.append("cannot write evidence: %r" % (e,))
    log(
        "%s %s seed=%d: %d cases, %d distinct non-trivial, %d violation bucket(s), %.1fs"
        % (mod.ID, tier, seed, total["evaluations"], len(total["hashes"]) + total["nontrivial_count"], len(violations), wall)
    )
    if rc == 1:
        return 1
    if errors:
        seen = set()
        for e in errors:
            key = e.strip().splitlines()[0][:200] if e.strip() else e
            if key in seen:
                continue
            seen.add(key)
            log("HARNESS-ERROR: " + e[:3000])
        return 2
    return 0
