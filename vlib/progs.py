"""Op-program strategies with swarm selection: each case first draws the subset
of opcodes enabled for it, then the ops from that subset (so long runs of one
kind and rare combinations both appear)."""

from hypothesis import strategies as st


def programs(op_strategies, min_len=1, max_len=40, always=(), focus=()):
    """op_strategies: {name: strategy producing a dict with 'op': name}.
    focus: groups of op-name prefixes; a quarter of the cases draw their ops
    from one such group only (dense exercise of one interface)."""
    names = sorted(op_strategies)
    groups = [[n for n in names if n.startswith(tuple(g))] for g in focus]
    groups = [g for g in groups if g]

    @st.composite
    def prog(draw):
        mode = draw(st.integers(0, 3 if not groups else 4))
        if mode == 0:
            enabled = names
        elif mode == 4:
            enabled = draw(st.sampled_from(groups))
        else:
            enabled = draw(st.lists(st.sampled_from(names), min_size=2, max_size=max(2, len(names) // 2), unique=True))
            enabled = sorted(set(enabled) | set(always))
        one = st.one_of([op_strategies[n] for n in enabled])
        n = draw(st.sampled_from([min_len, 3, 6, 10, 16, 25, max_len]))
        n = max(min_len, min(n, max_len))
        # exactly n ops: Hypothesis' list-size distribution favours short lists
        return draw(st.lists(one, min_size=n, max_size=n))

    return prog()


def op(name, **fields):
    return st.fixed_dictionaries(dict({"op": st.just(name)}, **fields))
