"""Realise an IR spec (vlib.spec) through gtirb's *public API*, along the
construction route the spec's 'how' fields select:

  how = 0  created once the parent exists, with the parent= keyword   (top-down)
  how = 1  created before the parent, passed to the parent's constructor (bottom-up)
  how = 2  created before the parent, attached afterwards through the parent's
           collection (add / update / |= for sets; append / insert / extend for
           ir.modules)
  how = 3  created before the parent, attached afterwards by assigning the
           child's parent attribute
  late     attributes are assigned after construction instead of being passed
           to the constructor

Symbol payloads (payload_how), symbolic expressions (se_how), entry points,
AuxData and CFG edges each have their own route choice.  References are to
objects, so the only ordering constraint is that an object exists; whatever
cannot be done at the chosen moment is done in the module's / IR's fix-up phase.
"""

from . import auxref
from .spec import Resolved


class BuildFailure(Exception):
    """The API refused a step of a valid construction."""


class Built:
    def __init__(self):
        self.ir = None
        self.objs = {}  # id(nodespec) -> gtirb object
        self.module_order = []  # uuids, expected order of ir.modules
        self.resolved = None


def enum_member(enum_cls, number):
    try:
        return enum_cls(number)
    except ValueError:
        raise BuildFailure("schema enum number %d missing from %s" % (number, enum_cls.__name__))


def label_obj(g, lab):
    if lab is None:
        return None
    return g.Edge.Label(enum_member(g.Edge.Type, lab[0]), lab[1], lab[2])


def build(g, spec, resolved=None, use_how=True, reverse_edges=False):
    r = resolved or Resolved(spec)
    B = Built()
    B.resolved = r
    objs = B.objs
    lookup_late = {}  # uuid -> object (for AuxData node leaves)
    from .spec import schema

    known_attrs = set(schema()["sym_attr"])

    def how(n):
        return n.get("how", 0) % 4 if use_how else 0

    def reg(nspec, obj):
        objs[id(nspec)] = obj
        lookup_late[r.uuid(nspec)] = obj
        return obj

    # ---- leaves ---------------------------------------------------------
    def make_block(b, parent=None):
        cls = g.CodeBlock if b["kind"] == "code" else g.DataBlock
        kw = {"uuid": r.uuid(b)}
        late = b.get("late") and use_how
        if not late:
            kw["size"] = b["size"]
            kw["offset"] = b["offset"]
            if b["kind"] == "code":
                kw["decode_mode"] = enum_member(g.CodeBlock.DecodeMode, b["decode_mode"])
        if parent is not None:
            kw["byte_interval"] = parent
        o = cls(**kw)
        if late:
            o.offset = b["offset"]
            o.size = b["size"]
            if b["kind"] == "code":
                o.decode_mode = enum_member(g.CodeBlock.DecodeMode, b["decode_mode"])
        return reg(b, o)

    def make_expr(e, s1, s2, symobjs):
        attrs = [
            enum_member(g.SymbolicExpression.Attribute, a) if a in known_attrs else a
            for a in e["attrs"]
        ]
        late = e.get("attrs_late") and use_how
        first = [] if late else attrs
        if e["kind"] == "const":
            x = g.SymAddrConst(e["offset"], symobjs[id(s1)], first)
        else:
            x = g.SymAddrAddr(e["scale"], e["offset"], symobjs[id(s1)], symobjs[id(s2)], first)
        if late:
            for a in attrs:
                x.attributes.add(a)
        return x

    pending_exprs = []  # (bi obj, bispec, minfo)

    def make_interval(minfo, bi, parent=None):
        pre = [(b, make_block(b)) for b in bi["blocks"] if how(b) != 0]
        kw = {"uuid": r.uuid(bi)}
        late = bi.get("late") and use_how
        contents = bytes(bi["contents"])
        variant = bi.get("ctor_variant", 0) % 3
        if variant == 0:
            kw["contents"] = contents
            kw["size"] = bi["size"]
        elif variant == 1:
            kw["contents"] = bytearray(contents)
            kw["size"] = bi["size"]
            kw["initialized_size"] = len(contents)
        else:
            # size assigned afterwards (grows only: contents stay)
            kw["contents"] = contents
        if not late:
            kw["address"] = bi["address"]
        ctor_blocks = [o for b, o in pre if how(b) == 1]
        if ctor_blocks:
            kw["blocks"] = ctor_blocks if bi["id"] % 2 else iter(ctor_blocks)
        exprs = r.exprs(minfo, bi)
        symobjs = objs
        se_done = False
        if bi.get("se_how", 1) % 4 == 0 and use_how and all(
            id(s1) in objs and id(s2) in objs for _, _, s1, s2 in exprs
        ):
            kw["symbolic_expressions"] = {at: make_expr(e, s1, s2, symobjs) for at, e, s1, s2 in exprs}
            se_done = True
        if parent is not None:
            kw["section"] = parent
        o = g.ByteInterval(**kw)
        if variant == 2:
            o.size = bi["size"]
        if late:
            o.address = bi["address"]
        reg(bi, o)
        batch = [ob for b, ob in pre if how(b) == 2]
        if batch:
            if bi["id"] % 3 == 0:
                o.blocks.update(batch)
            elif bi["id"] % 3 == 1:
                for ob in batch:
                    o.blocks.add(ob)
            else:
                o.blocks |= dict.fromkeys(batch).keys()
        for b, ob in pre:
            if how(b) == 3:
                ob.byte_interval = o
        for b in bi["blocks"]:
            if how(b) == 0:
                make_block(b, parent=o)
        if not se_done:
            pending_exprs.append((o, bi, minfo))
        return o

    def make_section(minfo, s, parent=None):
        pre = [(bi, make_interval(minfo, bi)) for bi in s["intervals"] if how(bi) != 0]
        late = s.get("late") and use_how
        kw = {"uuid": r.uuid(s)}
        flags = [enum_member(g.Section.Flag, f) for f in s["flags"]]
        if not late:
            kw["name"] = s["name"]
            kw["flags"] = flags if s["id"] % 2 else iter(flags)
        ctor = [o for bi, o in pre if how(bi) == 1]
        if ctor:
            kw["byte_intervals"] = ctor
        if parent is not None:
            kw["module"] = parent
        o = g.Section(**kw)
        if late:
            o.name = s["name"]
            for f in flags:
                o.flags.add(f)
        reg(s, o)
        batch = [ob for bi, ob in pre if how(bi) == 2]
        if batch:
            if s["id"] % 2:
                o.byte_intervals.update(batch)
            else:
                for ob in batch:
                    o.byte_intervals.add(ob)
        for bi, ob in pre:
            if how(bi) == 3:
                ob.section = o
        for bi in s["intervals"]:
            if how(bi) == 0:
                make_interval(minfo, bi, parent=o)
        return o

    pending_payloads = []  # (symbol obj, symspec, minfo)

    def make_symbol(minfo, sy, parent=None):
        pay = r.payload(minfo, sy)
        kw = {"uuid": r.uuid(sy)}
        ph = sy.get("payload_how", 0) % 3 if use_how else 0
        late = sy.get("late") and use_how
        name0 = "tmp" if late else sy["name"]
        if not late:
            kw["at_end"] = sy["at_end"]
        deferred = False
        if pay is not None:
            if ph == 0 and (pay[0] == "value" or id(pay[1]) in objs):
                kw["payload"] = pay[1] if pay[0] == "value" else objs[id(pay[1])]
            else:
                deferred = True
        if parent is not None:
            kw["module"] = parent
        o = g.Symbol(name0, **kw)
        reg(sy, o)
        if late:
            o.name = sy["name"]
            o.at_end = sy["at_end"]
        if deferred:
            if ph == 1 and (pay[0] == "value" or id(pay[1]) in objs):
                _set_payload(o, pay, objs)
            else:
                pending_payloads.append((o, pay))
        return o

    def make_proxy(p, parent=None):
        kw = {"uuid": r.uuid(p)}
        if parent is not None:
            kw["module"] = parent
        return reg(p, g.ProxyBlock(**kw))

    def aux_objects(holder_spec):
        out = {}
        for a in holder_spec["aux"]:
            tree, jv = r.aux_value(a)
            from . import tngrammar

            pv = auxref.to_python(
                tree, jv, g, lambda u: lookup_late.get(u), prefer_uuid=(len(a["key"]) % 2 == 1)
            )
            out[a["key"]] = g.AuxData(pv, tngrammar.to_string(tree))
        return out

    pending_aux = []  # (container obj, holder spec)
    pending_entries = []  # (module obj, code block spec of another module)

    def make_module(minfo, ir=None):
        m = minfo["spec"]
        pre_syms = [(sy, make_symbol(minfo, sy)) for sy in m["symbols"] if how(sy) != 0]
        pre_prox = [(p, make_proxy(p)) for p in m["proxies"] if how(p) != 0]
        pre_secs = [(s, make_section(minfo, s)) for s in m["sections"] if how(s) != 0]
        late = m.get("late") and use_how
        kw = {"uuid": r.uuid(m), "name": "tmp" if late else m["name"]}
        if not late:
            kw.update(
                binary_path=m["binary_path"],
                isa=enum_member(g.Module.ISA, m["isa"]),
                file_format=enum_member(g.Module.FileFormat, m["file_format"]),
                byte_order=enum_member(g.Module.ByteOrder, m["byte_order"]),
                preferred_addr=m["preferred_addr"],
                rebase_delta=m["rebase_delta"],
            )
        for key, pre in (("symbols", pre_syms), ("proxies", pre_prox), ("sections", pre_secs)):
            ctor = [o for n, o in pre if how(n) == 1]
            if ctor:
                kw[key] = ctor if m["id"] % 2 else iter(ctor)
        entry = r.entry(minfo)
        entry_done = False
        if entry is not None and m.get("entry_how", 0) % 2 == 0 and id(entry) in objs:
            kw["entry_point"] = objs[id(entry)]
            entry_done = True
        aux_done = False
        if m.get("aux_how", 0) % 2 == 0 and use_how:
            # AuxData built now may name nodes that do not exist yet: those
            # leaves are passed as plain UUIDs, which encode identically
            kw["aux_data"] = aux_objects(m)
            aux_done = True
        if ir is not None:
            kw["ir"] = ir
        o = g.Module(**kw)
        if late:
            o.name = m["name"]
            o.binary_path = m["binary_path"]
            o.isa = enum_member(g.Module.ISA, m["isa"])
            o.file_format = enum_member(g.Module.FileFormat, m["file_format"])
            o.byte_order = enum_member(g.Module.ByteOrder, m["byte_order"])
            o.preferred_addr = m["preferred_addr"]
            o.rebase_delta = m["rebase_delta"]
        reg(m, o)
        for key, pre, attr in (
            ("symbols", pre_syms, "module"),
            ("proxies", pre_prox, "module"),
            ("sections", pre_secs, "module"),
        ):
            coll = getattr(o, key)
            batch = [ob for n, ob in pre if how(n) == 2]
            if batch:
                if m["id"] % 3 == 0:
                    coll.update(batch)
                elif m["id"] % 3 == 1:
                    for ob in batch:
                        coll.add(ob)
                else:
                    coll |= dict.fromkeys(batch).keys()
            for n, ob in pre:
                if how(n) == 3:
                    setattr(ob, attr, o)
        for p in m["proxies"]:
            if how(p) == 0:
                make_proxy(p, parent=o)
        for s in m["sections"]:
            if how(s) == 0:
                make_section(minfo, s, parent=o)
        for sy in m["symbols"]:
            if how(sy) == 0:
                make_symbol(minfo, sy, parent=o)
        # fix-ups
        if entry is not None and not entry_done:
            if id(entry) in objs:
                o.entry_point = objs[id(entry)]
            else:
                # a code block of a module that is built later
                pending_entries.append((o, entry))
        if not aux_done:
            pending_aux.append((o, m))
        return o

    def finish_module(minfo):
        nonlocal pending_exprs, pending_payloads
        for sym, pay in pending_payloads:
            _set_payload(sym, pay, objs)
        pending_payloads = []
        for bio, bi, mi in pending_exprs:
            exprs = r.exprs(mi, bi)
            mode = bi.get("se_how", 1) % 4 if use_how else 1
            made = [(at, make_expr(e, s1, s2, objs)) for at, e, s1, s2 in exprs]
            if mode == 2:
                bio.symbolic_expressions.update(dict(made))
            elif mode == 3:
                bio.symbolic_expressions = dict(made)
            else:
                for at, x in made:
                    bio.symbolic_expressions[at] = x
        pending_exprs = []

    # ---- IR ---------------------------------------------------------------
    spec_ir = spec["ir"]
    pre_mods = []
    for minfo in r.mods:
        if how(minfo["spec"]) != 0:
            pre_mods.append((minfo, make_module(minfo)))
            finish_module(minfo)
    kw = {"uuid": r.ir_uuid}
    ctor_mods = [o for mi, o in pre_mods if how(mi["spec"]) == 1]
    if ctor_mods:
        kw["modules"] = ctor_mods
        B.module_order += [o.uuid for o in ctor_mods]
    edges = r.edges()
    if reverse_edges:
        edges = list(reversed(edges))
    ctor_edges = []
    if use_how:
        for s, t, lab, eh in edges:
            if eh % 3 == 0 and id(s) in objs and id(t) in objs:
                ctor_edges.append((s, t, lab))
        if ctor_edges:
            kw["cfg"] = [g.Edge(objs[id(s)], objs[id(t)], label_obj(g, lab)) for s, t, lab in ctor_edges]
    ir_aux_done = False
    if spec_ir.get("aux_how", 0) % 2 == 0 and use_how:
        kw["aux_data"] = aux_objects(spec_ir)
        ir_aux_done = True
    ir = g.IR(**kw)
    B.ir = ir
    reg(spec_ir, ir)
    for mi, o in pre_mods:
        h = how(mi["spec"])
        if h == 2:
            sel = mi["spec"]["id"] % 3
            if sel == 0:
                ir.modules.append(o)
                B.module_order.append(o.uuid)
            elif sel == 1:
                ir.modules.insert(0, o)
                B.module_order.insert(0, o.uuid)
            else:
                ir.modules.extend([o])
                B.module_order.append(o.uuid)
        elif h == 3:
            o.ir = ir
            B.module_order.append(o.uuid)
    for minfo in r.mods:
        if how(minfo["spec"]) == 0:
            o = make_module(minfo, ir=ir)
            B.module_order.append(o.uuid)
            finish_module(minfo)
    for o, entry in pending_entries:
        o.entry_point = objs[id(entry)]
    done = {(id(s), id(t), lab) for s, t, lab in ctor_edges}
    rest = [(s, t, lab, eh) for s, t, lab, eh in edges if (id(s), id(t), lab) not in done]
    upd = []
    for s, t, lab, eh in rest:
        e = g.Edge(objs[id(s)], objs[id(t)], label_obj(g, lab))
        if eh % 3 == 2 and use_how:
            upd.append(e)
        else:
            ir.cfg.add(e)
    if upd:
        ir.cfg.update(upd)
    if not ir_aux_done:
        pending_aux.append((ir, spec_ir))
    for holder, hs in pending_aux:
        for k, v in aux_objects(hs).items():
            holder.aux_data[k] = v
    return B


def _set_payload(sym, pay, objs):
    if pay[0] == "value":
        sym.value = pay[1]
    else:
        sym.referent = objs[id(pay[1])]
