"""Hypothesis strategies for ownership-forest programs (vlib.forest ops)."""

from hypothesis import strategies as st

from . import forest, progs

SET_FUNCS = ["add", "discard", "remove", "pop", "clear", "update", "ior", "iand", "isub", "ixor"]
LIST_FUNCS = ["insert", "append", "extend", "iadd", "delitem", "delslice", "setitem", "setslice", "pop", "remove", "reverse", "clear"]


def layout():
    def col(n, npar):
        return st.lists(st.one_of(st.integers(0, npar - 1), st.integers(0, npar - 1), st.just(-1)), min_size=n, max_size=n)

    c = forest.INIT_COUNTS
    return st.fixed_dictionaries(
        {
            # most modules start in IR 0, so that ir.modules is long enough for
            # index / slice operations to have interior positions
            "mod": st.lists(st.one_of(st.just(0), st.just(0), st.integers(0, c["ir"] - 1), st.just(-1)), min_size=c["mod"], max_size=c["mod"]),
            "sec": col(c["sec"], c["mod"]),
            "bi": col(c["bi"], c["sec"]),
            "blk": col(c["blk"], c["bi"]),
            "prx": col(c["prx"], c["mod"]),
            "sym": col(c["sym"], c["mod"]),
            "nil": st.one_of(st.none(), st.none(), st.tuples(st.integers(0, 6), st.integers(0, 5)).map(list)),
        }
    )


SETQ_FUNCS = ["contains", "len", "iter", "eq", "ne", "le", "lt", "ge", "gt", "isdisjoint", "or", "and", "sub", "xor"]
LISTQ_FUNCS = ["getitem", "getslice", "index", "count", "contains", "iter", "reversed", "len"]


def op_strategies(set_funcs=SET_FUNCS, list_funcs=LIST_FUNCS, symbols=False, load=True, new=True, edits=True,
                  kinds=None, queries=False):
    idx = st.integers(0, 9)
    par = st.one_of(st.integers(0, 5), st.integers(0, 5), st.just(-1))
    child_kind = st.sampled_from(kinds or ["mod", "sec", "bi", "blk", "prx", "sym"])
    set_kind = st.sampled_from([k for k in forest.SET_KINDS if kinds is None or k in kinds])
    cs = st.lists(idx, max_size=3)
    how = st.sampled_from(["list", "list", "set", "frozenset", "iter", "tuple"])
    small = st.one_of(st.integers(-3, 5), st.integers(-3, 5), st.sampled_from([-9, 9]))
    sl = st.one_of(st.none(), small)
    ops = {
        "setparent": progs.op("setparent", k=child_kind, c=idx, p=par),
    }
    for f in set_funcs:
        fields = dict(k=set_kind, p=st.integers(0, 5), f=st.just(f), cs=cs)
        fields["as"] = how
        if f in ("update", "ior", "iand", "isub", "ixor"):
            fields["as"] = st.one_of(how, how, how, st.just("view"))
            fields["q"] = st.integers(0, 5)
        if f in ("discard", "remove", "isub"):
            fields["xk"] = st.sampled_from([0, 0, 0, 1, 2])
        if f == "update":
            fields["as"] = st.one_of(how, how, how, st.just("view"), st.just("boom"))
            fields["bk"] = st.integers(0, 3)
            fields["cs2"] = cs
            fields["two"] = st.booleans()
            fields["zero"] = st.sampled_from([False, False, False, False, True])
        ops["set." + f] = progs.op("set", **fields)
    for f in list_funcs:
        fields = {"i": st.integers(0, 3), "f": st.just(f), "ms": cs, "a": small, "as": how}
        if f in ("delslice", "setslice"):
            fields.update(a=sl, b=sl, s=st.one_of(st.none(), st.none(), st.sampled_from([1, 2, -1, -2, 3])))
        if f in ("extend", "iadd"):
            fields["as"] = st.one_of(how, how, how, st.just("view"), st.just("boom"))
            fields["bk"] = st.integers(0, 3)
        if f == "setslice":
            fields["perm"] = st.one_of(st.none(), st.integers(0, 8))
            fields["mis"] = st.sampled_from([0, 0, 0, 1, 2])
            fields["as"] = st.one_of(how, how, how, how, st.just("boom"))
            fields["bk"] = st.integers(0, 3)
        if f in ("insert", "delitem", "setitem", "pop"):
            fields["ix"] = st.sampled_from([0, 0, 0, 1])
        if f == "insert":
            fields["huge"] = st.sampled_from([0, 0, 0, 0, 1, 2, 3, 4, 5])
        if f == "remove":
            fields["xk"] = st.sampled_from([0, 0, 0, 1, 2, 3])
        if f == "pop":
            fields["arg"] = st.booleans()
        ops["list." + f] = progs.op("list", **fields)
    if new:
        ops["new"] = progs.op("new", k=st.sampled_from(forest.KINDS), p=par, cs=cs, ck=st.integers(0, 2), shape=st.integers(0, 5))
    if load:
        ops["load"] = progs.op("load", i=st.integers(0, 4))
    if edits:
        ops["edit"] = progs.op("edit", k=st.sampled_from(["mod", "sec", "bi", "blk", "sym"]), c=idx, v=st.integers(0, 9))
    if queries:
        for f in SETQ_FUNCS:
            ops["setq." + f] = progs.op(
                "setq", k=set_kind, p=st.integers(0, 5), f=st.just(f), cs=cs, q=st.integers(0, 5),
                refl=st.booleans(), **{"as": st.sampled_from(["set", "set", "frozenset", "wrapper"])}
            )
        for f in LISTQ_FUNCS:
            fields = {"i": st.integers(0, 3), "f": st.just(f), "ms": cs, "a": small}
            if f in ("index", "count", "contains"):
                fields["xk"] = st.sampled_from([0, 0, 0, 1, 2, 3, 5])
            if f == "getslice":
                fields.update(a=sl, b=sl, s=st.one_of(st.none(), st.none(), st.sampled_from([1, 2, -1, -2, 3])))
            ops["listq." + f] = progs.op("listq", **fields)
    if symbols:
        what = st.sampled_from(["none", "blk", "blk", "prx", "int"])
        r = st.one_of(st.integers(0, 6), st.just(0))
        ops["rename"] = progs.op("rename", c=idx, v=st.integers(0, 3))
        ops["payload"] = progs.op("payload", c=idx, w=what, r=r, via=st.integers(0, 1))
        ops["newsym"] = progs.op("newsym", w=what, r=r, p=par, v=st.integers(0, 3))
        # symbol edits are the subject of C10: weight them up
        for extra in ("#2", "#3", "#4"):
            ops["payload" + extra] = ops["payload"]
            ops["rename" + extra] = ops["rename"]
        ops["refbounce"] = progs.op("refbounce", r=st.integers(0, 7), route=st.integers(0, 4))
        ops["refbounce#2"] = ops["refbounce"]
        ops["symparent"] = progs.op("setparent", k=st.just("sym"), c=idx, p=par)
        ops["refparent"] = progs.op("setparent", k=st.sampled_from(["blk", "prx", "bi", "sec"]), c=idx, p=par)
    return ops


FOCUS = [["list.", "listq.", "new"], ["set.", "setq.", "setparent"], ["setparent", "new", "load"],
         ["rename", "payload", "newsym", "symparent", "refparent", "refbounce"]]


def cases(max_len=40, only=None, **kw):
    ops = op_strategies(**kw)
    if only:
        ops = {n: v for n, v in ops.items() if n.startswith(tuple(only))}
    return st.fixed_dictionaries({"layout": layout(), "ops": progs.programs(ops, max_len=max_len, focus=FOCUS)})
