"""A small proto3 front end: .proto text -> FileDescriptorProto.

The sandbox has no protoc / grpc_tools, and /repo/python/gtirb/proto/*_pb2.py
are build products.  This module covers exactly the subset of proto3 that
/repo/proto/*.proto uses (syntax, package, file options, import, message, enum,
oneof, map<>, repeated, reserved numbers/ranges/names, nested scopes) and emits
the same three-line module protoc's python plugin emits.  It is part of the
trusted base; `vlib.build --selfcheck` compares its output with descriptors
produced by the real protoc for the installed gtirb wheel.
"""

import re

from google.protobuf import descriptor_pb2 as dpb

F = dpb.FieldDescriptorProto

SCALARS = {
    "double": F.TYPE_DOUBLE,
    "float": F.TYPE_FLOAT,
    "int64": F.TYPE_INT64,
    "uint64": F.TYPE_UINT64,
    "int32": F.TYPE_INT32,
    "fixed64": F.TYPE_FIXED64,
    "fixed32": F.TYPE_FIXED32,
    "bool": F.TYPE_BOOL,
    "string": F.TYPE_STRING,
    "bytes": F.TYPE_BYTES,
    "uint32": F.TYPE_UINT32,
    "sfixed32": F.TYPE_SFIXED32,
    "sfixed64": F.TYPE_SFIXED64,
    "sint32": F.TYPE_SINT32,
    "sint64": F.TYPE_SINT64,
}

TOKEN_RE = re.compile(
    r"""\s+|//[^\n]*|/\*.*?\*/|"(?:[^"\\]|\\.)*"|[A-Za-z_][A-Za-z0-9_.]*|-?[0-9]+|[{}\[\]<>=;,()]""",
    re.S,
)


class ProtoSyntaxError(Exception):
    pass


def tokenize(text):
    pos = 0
    out = []
    while pos < len(text):
        m = TOKEN_RE.match(text, pos)
        if not m:
            raise ProtoSyntaxError("bad character at %d: %r" % (pos, text[pos : pos + 20]))
        tok = m.group(0)
        pos = m.end()
        if tok.isspace() or tok.startswith("//") or tok.startswith("/*"):
            continue
        out.append(tok)
    return out


class Parser:
    def __init__(self, tokens):
        self.t = tokens
        self.i = 0

    def peek(self):
        return self.t[self.i] if self.i < len(self.t) else None

    def next(self):
        tok = self.peek()
        if tok is None:
            raise ProtoSyntaxError("unexpected end of file")
        self.i += 1
        return tok

    def expect(self, tok):
        got = self.next()
        if got != tok:
            raise ProtoSyntaxError("expected %r, got %r" % (tok, got))

    def parse_file(self):
        ast = {
            "syntax": "proto2",
            "package": "",
            "imports": [],
            "options": {},
            "messages": [],
            "enums": [],
        }
        while self.peek() is not None:
            tok = self.next()
            if tok == "syntax":
                self.expect("=")
                ast["syntax"] = self.next().strip('"')
                self.expect(";")
            elif tok == "package":
                ast["package"] = self.next()
                self.expect(";")
            elif tok == "import":
                ast["imports"].append(self.next().strip('"'))
                self.expect(";")
            elif tok == "option":
                name = self.next()
                self.expect("=")
                ast["options"][name] = self.next().strip('"')
                self.expect(";")
            elif tok == "message":
                ast["messages"].append(self.parse_message())
            elif tok == "enum":
                ast["enums"].append(self.parse_enum())
            elif tok == ";":
                pass
            else:
                raise ProtoSyntaxError("unexpected token %r at top level" % tok)
        return ast

    def parse_enum(self):
        name = self.next()
        self.expect("{")
        values = []
        while self.peek() != "}":
            vname = self.next()
            if vname == ";":
                continue
            self.expect("=")
            num = int(self.next())
            self.expect(";")
            values.append((vname, num))
        self.expect("}")
        return {"name": name, "values": values}

    def parse_reserved(self, msg):
        while True:
            tok = self.next()
            if tok.startswith('"'):
                msg["reserved_names"].append(tok.strip('"'))
            else:
                start = int(tok)
                end = start
                if self.peek() == "to":
                    self.next()
                    end = int(self.next())
                msg["reserved_ranges"].append((start, end + 1))
            tok = self.next()
            if tok == ";":
                return
            if tok != ",":
                raise ProtoSyntaxError("bad reserved statement near %r" % tok)

    def parse_field(self, first, oneof_index=None):
        field = {"label": "optional", "oneof": oneof_index}
        tok = first
        if tok == "repeated":
            field["label"] = "repeated"
            tok = self.next()
        elif tok == "optional":
            tok = self.next()
        if tok == "map":
            self.expect("<")
            ktype = self.next()
            self.expect(",")
            vtype = self.next()
            self.expect(">")
            field["map"] = (ktype, vtype)
            field["type"] = None
        else:
            field["type"] = tok
        field["name"] = self.next()
        self.expect("=")
        field["number"] = int(self.next())
        self.expect(";")
        return field

    def parse_message(self):
        msg = {
            "name": self.next(),
            "fields": [],
            "oneofs": [],
            "messages": [],
            "enums": [],
            "reserved_names": [],
            "reserved_ranges": [],
        }
        self.expect("{")
        while self.peek() != "}":
            tok = self.next()
            if tok == ";":
                continue
            if tok == "reserved":
                self.parse_reserved(msg)
            elif tok == "message":
                msg["messages"].append(self.parse_message())
            elif tok == "enum":
                msg["enums"].append(self.parse_enum())
            elif tok == "oneof":
                oname = self.next()
                index = len(msg["oneofs"])
                msg["oneofs"].append(oname)
                self.expect("{")
                while self.peek() != "}":
                    msg["fields"].append(self.parse_field(self.next(), index))
                self.expect("}")
            else:
                msg["fields"].append(self.parse_field(tok))
        self.expect("}")
        return msg


def parse(text):
    return Parser(tokenize(text)).parse_file()


def _camel(name):
    return "".join(p[:1].upper() + p[1:] for p in name.split("_"))


def collect_types(ast, table):
    """Record every message/enum full name -> 'message' | 'enum'."""
    pkg = ast["package"]

    def walk(prefix, messages, enums):
        for e in enums:
            table[prefix + "." + e["name"]] = "enum"
        for m in messages:
            full = prefix + "." + m["name"]
            table[full] = "message"
            walk(full, m["messages"], m["enums"])

    walk("." + pkg if pkg else "", ast["messages"], ast["enums"])


def _resolve(name, scope, table):
    """proto name resolution: innermost scope outwards."""
    if name.startswith("."):
        if name in table:
            return name
        raise ProtoSyntaxError("unknown type %s" % name)
    parts = scope.split(".")
    while True:
        cand = ".".join(parts + [name])
        if not cand.startswith("."):
            cand = "." + cand
        if cand in table:
            return cand
        if not parts or parts == [""]:
            break
        parts.pop()
    raise ProtoSyntaxError("unknown type %s in scope %s" % (name, scope))


def _set_type(fd, tname, scope, table):
    if tname in SCALARS:
        fd.type = SCALARS[tname]
        return
    full = _resolve(tname, scope, table)
    fd.type_name = full
    fd.type = F.TYPE_ENUM if table[full] == "enum" else F.TYPE_MESSAGE


def _fill_enum(ed, enum):
    ed.name = enum["name"]
    for vname, num in enum["values"]:
        v = ed.value.add()
        v.name = vname
        v.number = num


def _fill_message(md, msg, scope, table):
    md.name = msg["name"]
    full = scope + "." + msg["name"]
    for f in msg["fields"]:
        fd = md.field.add()
        fd.name = f["name"]
        fd.number = f["number"]
        if "map" in f:
            ktype, vtype = f["map"]
            entry = md.nested_type.add()
            entry.name = _camel(f["name"]) + "Entry"
            kf = entry.field.add()
            kf.name = "key"
            kf.number = 1
            kf.label = F.LABEL_OPTIONAL
            _set_type(kf, ktype, full, table)
            vf = entry.field.add()
            vf.name = "value"
            vf.number = 2
            vf.label = F.LABEL_OPTIONAL
            _set_type(vf, vtype, full, table)
            entry.options.map_entry = True
            fd.label = F.LABEL_REPEATED
            fd.type = F.TYPE_MESSAGE
            fd.type_name = full + "." + entry.name
        else:
            fd.label = (
                F.LABEL_REPEATED if f["label"] == "repeated" else F.LABEL_OPTIONAL
            )
            _set_type(fd, f["type"], full, table)
        if f["oneof"] is not None:
            fd.oneof_index = f["oneof"]
    for sub in msg["messages"]:
        _fill_message(md.nested_type.add(), sub, full, table)
    for e in msg["enums"]:
        _fill_enum(md.enum_type.add(), e)
    for oname in msg["oneofs"]:
        md.oneof_decl.add().name = oname
    for start, end in msg["reserved_ranges"]:
        r = md.reserved_range.add()
        r.start = start
        r.end = end
    for rname in msg["reserved_names"]:
        md.reserved_name.append(rname)


def to_file_descriptor(ast, file_name, table, import_prefix=""):
    fdp = dpb.FileDescriptorProto()
    fdp.name = file_name
    fdp.package = ast["package"]
    for imp in ast["imports"]:
        fdp.dependency.append(import_prefix + imp)
    scope = "." + ast["package"] if ast["package"] else ""
    for m in ast["messages"]:
        _fill_message(fdp.message_type.add(), m, scope, table)
    for e in ast["enums"]:
        _fill_enum(fdp.enum_type.add(), e)
    for key, value in ast["options"].items():
        if key == "java_package":
            fdp.options.java_package = value
        else:
            raise ProtoSyntaxError("unsupported file option %s" % key)
    if ast["syntax"] != "proto2":
        fdp.syntax = ast["syntax"]
    return fdp


MODULE_TEMPLATE = '''# -*- coding: utf-8 -*-
# Generated by vlib.protoc_lite from {source}.  DO NOT EDIT!
"""Generated protocol buffer code."""
from google.protobuf.internal import builder as _builder
from google.protobuf import descriptor as _descriptor
from google.protobuf import descriptor_pool as _descriptor_pool
from google.protobuf import symbol_database as _symbol_database

_sym_db = _symbol_database.Default()

{imports}
DESCRIPTOR = _descriptor_pool.Default().AddSerializedFile({serialized!r})

_builder.BuildMessageAndEnumDescriptors(DESCRIPTOR, globals())
_builder.BuildTopDescriptorsAndMessages(DESCRIPTOR, {module!r}, globals())
'''


def module_source(fdp, module_name, dep_modules):
    imports = "".join(
        "from %s import %s as %s\n"
        % (m.rsplit(".", 1)[0], m.rsplit(".", 1)[1], m.replace(".", "_dot_"))
        for m in dep_modules
    )
    return MODULE_TEMPLATE.format(
        source=fdp.name,
        imports=imports,
        serialized=fdp.SerializeToString(deterministic=True),
        module=module_name,
    )
