"""IR *specs*: plain-data descriptions of a self-contained IR (generator G-IR).

spec = {
  "salt": int,                       # UUID scrambling (deep_eq sorts by UUID)
  "ir": {"id": int, "aux": [AUX...], "aux_how": 0|1},
  "modules": [ MODULE... ],
  "edges": [ {"src": int, "tgt": int, "label": null | [type#, cond, direct], "how": 0..2} ],
}
MODULE = {"id", "how", "late", "name", "binary_path", "isa", "file_format", "byte_order",
          "preferred_addr", "rebase_delta", "proxies": [{"id","how"}],
          "sections": [SECTION...], "symbols": [SYMBOL...], "entry": null|int, "entry_how": 0|1,
          "aux": [AUX...], "aux_how": 0|1}
SECTION = {"id","how","late","name","flags":[flag#...],"intervals":[INTERVAL...]}
INTERVAL = {"id","how","late","address": null|int,"size": int,"contents":[byte...],
            "blocks":[{"id","how","late","kind":"code"|"data","offset","size","decode_mode"}],
            "exprs":[{"at": int, "kind":"const"|"addr","offset","scale","sym1","sym2",
                      "attrs":[int...], "attrs_late": bool}], "se_how": 0..3}
SYMBOL = {"id","how","late","name","at_end","payload": null | {"value": int} | {"block": int} | {"proxy": int},
          "payload_how": 0..2}
AUX = {"key": str, "t": type tree, "v": jv}    (vlib.auxref value model; UUID leaves whose hex is one of
                                               auxgen.ATTACHED are placeholders for "node #k of this IR")

All cross references are indices taken modulo the size of the target pool *of
the same module* (symbol referents, expression symbols, entry point) or of the
whole IR (edge endpoints, AuxData node leaves), so every spec is self-contained
by construction.  'how' selects the construction route (see vlib.irbuild);
enum-typed fields hold *schema numbers*.
"""

import uuid

from hypothesis import strategies as st

from . import auxgen, auxref

U64 = (1 << 64) - 1
I64_MIN, I64_MAX = -(1 << 63), (1 << 63) - 1


class InvalidSpec(Exception):
    pass


def _ek(key):
    """equality class of a set element / mapping key as Python sees it
    (0.0 and -0.0 are one key; the key object itself is hashable)"""
    return key


def mkuuid(node_id, salt):
    v = (((node_id + 1) * 0x9E3779B1) ^ salt) & 0xFFFFFFFF
    return uuid.UUID(int=(v << 96) | (v << 40) | (node_id & 0xFFFFFFFF) | (1 << 39))


_mkuuid_plain = mkuuid


# ------------------------------------------------------------------ schema


def schema():
    """Enum numbers from the built descriptors (so a constant missing from a
    Python Enum is still generated)."""
    from gtirb.proto import CFG_pb2, CodeBlock_pb2, Module_pb2, Section_pb2, SymbolicExpression_pb2

    def nums(enum):
        return [v.number for v in enum.DESCRIPTOR.values]

    return {
        "isa": nums(Module_pb2.ISA),
        "file_format": nums(Module_pb2.FileFormat),
        "byte_order": nums(Module_pb2.ByteOrder),
        "section_flag": nums(Section_pb2.SectionFlag),
        "decode_mode": nums(CodeBlock_pb2.DecodeMode),
        "edge_type": nums(CFG_pb2.EdgeType),
        "sym_attr": nums(SymbolicExpression_pb2.SymAttribute),
    }


# ------------------------------------------------------------------ strategy

NAMES = ["", "a", "b", ".text", "é", "naïve", "\x00", "x\x00y", "日本", "main", "a", "\U0001d11e",
         "\ufeff", "\ufeffa", " a ", "a\r\n", "e\u0301"]


def _u64():
    return st.one_of(
        st.sampled_from([0, 1, 2, 255, 256, 1 << 32, 1 << 63, U64 - 1, U64]),
        st.integers(0, 64),
        st.integers(0, U64),
    )


def _i64():
    return st.one_of(
        st.sampled_from([0, 1, -1, I64_MIN, I64_MAX, I64_MIN + 1, 1 << 32, -(1 << 32)]),
        st.integers(-64, 64),
        st.integers(I64_MIN, I64_MAX),
    )


def _name():
    return st.one_of(
        st.sampled_from(NAMES),
        st.text(st.characters(blacklist_categories=("Cs",)), max_size=8),
    )


def _how():
    return st.integers(0, 3)


def specs(max_modules=3, aux=True, rich_refs=False, max_aux_depth=2):
    sc = schema()
    unknown_attr = st.one_of(
        st.sampled_from([27, 999, 5000, 2**31 - 1, -1, -(2**31)]),
        st.integers(-(2**31), 2**31 - 1),
    ).filter(lambda n: n not in sc["sym_attr"])
    attr = st.one_of(st.sampled_from(sc["sym_attr"]), st.sampled_from(sc["sym_attr"]), unknown_attr)

    @st.composite
    def spec(draw):
        counter = [0]

        def nid():
            counter[0] += 1
            return counter[0]

        def aux_list():
            if not aux:
                return []
            n = draw(st.sampled_from([0, 0, 1, 1, 2, 3]))
            out, seen = [], set()
            for _ in range(n):
                key = draw(st.one_of(st.sampled_from(["k", "types", "é", ""]), _name()))
                if key in seen:
                    continue
                seen.add(key)
                tv = draw(auxgen.typed_values(max_depth=max_aux_depth))
                out.append({"key": key, "t": tv["t"], "v": tv["v"]})
            return out

        def block():
            return {
                "id": nid(),
                "how": draw(_how()),
                "late": draw(st.booleans()),
                "kind": draw(st.sampled_from(["code", "code", "data"])),
                "offset": draw(st.one_of(st.integers(0, 6), st.integers(0, 6), _u64())),
                "size": draw(st.one_of(st.integers(0, 6), st.integers(0, 6), _u64())),
                "decode_mode": draw(st.sampled_from(sc["decode_mode"])),
            }

        def expr():
            return {
                "at": draw(st.one_of(st.integers(0, 8), _u64())),
                "kind": draw(st.sampled_from(["const", "addr"])),
                "offset": draw(_i64()),
                "scale": draw(_i64()),
                "sym1": draw(st.integers(0, 7)),
                "sym2": draw(st.integers(0, 7)),
                "attrs": draw(st.lists(attr, max_size=3, unique=True)),
                "attrs_late": draw(st.booleans()),
            }

        def interval():
            contents = draw(st.lists(st.integers(0, 255), max_size=6))
            size_mode = draw(st.integers(0, 5))
            if size_mode < 3:
                size = len(contents)
            elif size_mode < 5:
                size = len(contents) + draw(st.integers(1, 8))
            else:
                size = max(len(contents), draw(_u64()))
            exprs, seen = [], set()
            for _ in range(draw(st.sampled_from([0, 0, 1, 2, 3 if not rich_refs else 4]))):
                e = expr()
                if e["at"] not in seen:
                    seen.add(e["at"])
                    exprs.append(e)
            return {
                "id": nid(),
                "how": draw(_how()),
                "late": draw(st.booleans()),
                "address": draw(st.one_of(st.none(), st.sampled_from([0, 0, 1, 16, U64]), _u64())),
                "size": size,
                "contents": contents,
                "ctor_variant": draw(st.integers(0, 2)),
                "blocks": [block() for _ in range(draw(st.sampled_from([0, 1, 2, 2, 3, 4])))],
                "exprs": exprs,
                "se_how": draw(st.integers(0, 3)),
            }

        def section():
            return {
                "id": nid(),
                "how": draw(_how()),
                "late": draw(st.booleans()),
                "name": draw(_name()),
                "flags": draw(st.lists(st.sampled_from(sc["section_flag"]), max_size=7, unique=True)),
                "intervals": [interval() for _ in range(draw(st.sampled_from([0, 1, 1, 2, 3])))],
            }

        def symbol():
            kind = draw(st.sampled_from(["none", "value", "value", "block", "block", "block", "proxy"]))
            if kind == "none":
                payload = None
            elif kind == "value":
                payload = {"value": draw(st.one_of(st.sampled_from([0, 0, 1, U64]), _u64()))}
            else:
                payload = {kind: draw(st.integers(0, 9))}
            return {
                "id": nid(),
                "how": draw(_how()),
                "late": draw(st.booleans()),
                "name": draw(_name()),
                "at_end": draw(st.booleans()),
                "payload": payload,
                "payload_how": draw(st.integers(0, 2)),
            }

        def module():
            return {
                "id": nid(),
                "how": draw(_how()),
                "late": draw(st.booleans()),
                "name": draw(_name()),
                "binary_path": draw(st.one_of(st.just(""), st.just("/bin/é"), _name())),
                "isa": draw(st.sampled_from(sc["isa"])),
                "file_format": draw(st.sampled_from(sc["file_format"])),
                "byte_order": draw(st.sampled_from(sc["byte_order"])),
                "preferred_addr": draw(_u64()),
                "rebase_delta": draw(_i64()),
                "proxies": [{"id": nid(), "how": draw(_how())} for _ in range(draw(st.sampled_from([0, 1, 1, 2, 3])))],
                "sections": [section() for _ in range(draw(st.sampled_from([0, 1, 1, 2, 3])))],
                "symbols": [symbol() for _ in range(draw(st.sampled_from([0, 1, 2, 3, 5 if not rich_refs else 8])))],
                "entry": draw(st.one_of(st.none(), st.integers(0, 5))),
                # None: the entry point is a code block of this module; k: of
                # module k (mod number of modules) of the same IR
                "entry_mod": draw(st.sampled_from([None, None, None, 0, 1, 2])),
                "entry_how": draw(st.integers(0, 1)),
                "aux": aux_list(),
                "aux_how": draw(st.integers(0, 1)),
            }

        nmod = draw(st.sampled_from([0, 1, 1, 1, 2, 2, max_modules]))
        modules = [module() for _ in range(nmod)]
        label = st.one_of(
            st.none(),
            st.just([sc["edge_type"][0], False, False]),
            st.tuples(st.sampled_from(sc["edge_type"]), st.booleans(), st.booleans()).map(list),
        )
        n_edges = draw(st.sampled_from([0, 1, 2, 3, 4, 6 if not rich_refs else 10]))
        edges, seen = [], set()
        for _ in range(n_edges):
            e = {
                "src": draw(st.integers(0, 11)),
                "tgt": draw(st.integers(0, 11)),
                "label": draw(label),
                "how": draw(st.integers(0, 2)),
            }
            edges.append(e)
        # parallel edges that differ in exactly one label component (or None vs
        # all-false): the cases where label comparison / ordering matters
        for _ in range(draw(st.sampled_from([0, 0, 1, 2]))):
            if not edges:
                break
            base = edges[draw(st.integers(0, len(edges) - 1))]
            lab = base["label"]
            if lab is None:
                new_lab = [sc["edge_type"][0], False, False]
            else:
                which = draw(st.integers(0, 3))
                if which == 0:
                    new_lab = None
                elif which == 1:
                    new_lab = [lab[0], not lab[1], lab[2]]
                elif which == 2:
                    new_lab = [lab[0], lab[1], not lab[2]]
                else:
                    others = [t for t in sc["edge_type"] if t != lab[0]]
                    new_lab = [draw(st.sampled_from(others)), lab[1], lab[2]]
            edges.append({"src": base["src"], "tgt": base["tgt"], "label": new_lab, "how": draw(st.integers(0, 2))})
        ir_spec = {"id": nid(), "aux": aux_list(), "aux_how": draw(st.integers(0, 1))}
        out = {
            "salt": draw(st.integers(0, 0xFFFFFFFF)),
            "ir": ir_spec,
            "modules": modules,
            "edges": edges,
        }
        # boundary UUIDs: one node may carry the nil UUID, another the all-ones UUID
        pick = draw(st.integers(0, 5))
        if pick < 2:
            out["nil_id"] = draw(st.integers(1, counter[0]))
        if pick in (1, 2):
            out["ones_id"] = draw(st.integers(1, counter[0]))
        return out

    return spec()


# ------------------------------------------------------------------ resolution


class Resolved:
    """Index pools and cross references of a spec, resolved modulo pool size."""

    def __init__(self, spec):
        self.spec = spec
        salt = spec["salt"]
        self.salt = salt
        special = {}
        if spec.get("nil_id") is not None:
            special[spec["nil_id"]] = uuid.UUID(int=0)  # the nil UUID is a legal node UUID
        if spec.get("ones_id") is not None and spec.get("ones_id") != spec.get("nil_id"):
            special[spec["ones_id"]] = uuid.UUID(int=(1 << 128) - 1)

        def mkuuid(node_id, salt):
            return special[node_id] if node_id in special else _mkuuid_plain(node_id, salt)

        ids = []
        self.nodes = []  # (kind, nodespec, uuid) for every node incl. the IR, traversal order
        self.ir_uuid = mkuuid(spec["ir"]["id"], salt)
        ids.append(spec["ir"]["id"])
        self.nodes.append(("IR", spec["ir"], self.ir_uuid))
        self.cfg_nodes = []  # global list of (kind, spec)
        self.mods = []
        for m in spec["modules"]:
            info = {"spec": m, "blocks": [], "code": [], "proxies": [], "symbols": [], "intervals": []}
            ids.append(m["id"])
            self.nodes.append(("Module", m, mkuuid(m["id"], salt)))
            for p in m["proxies"]:
                ids.append(p["id"])
                info["proxies"].append(p)
                self.nodes.append(("ProxyBlock", p, mkuuid(p["id"], salt)))
            for s in m["sections"]:
                ids.append(s["id"])
                self.nodes.append(("Section", s, mkuuid(s["id"], salt)))
                for bi in s["intervals"]:
                    ids.append(bi["id"])
                    info["intervals"].append(bi)
                    self.nodes.append(("ByteInterval", bi, mkuuid(bi["id"], salt)))
                    for b in bi["blocks"]:
                        ids.append(b["id"])
                        info["blocks"].append(b)
                        if b["kind"] == "code":
                            info["code"].append(b)
                        elif b["kind"] != "data":
                            raise InvalidSpec("block kind")
                        self.nodes.append(("CodeBlock" if b["kind"] == "code" else "DataBlock", b, mkuuid(b["id"], salt)))
            for sy in m["symbols"]:
                ids.append(sy["id"])
                info["symbols"].append(sy)
                self.nodes.append(("Symbol", sy, mkuuid(sy["id"], salt)))
            self.cfg_nodes += info["code"] + info["proxies"]
            self.mods.append(info)
        if len(set(ids)) != len(ids) or any((not isinstance(i, int)) or isinstance(i, bool) or i < 0 for i in ids):
            raise InvalidSpec("node ids not distinct")
        self.uuid_of = {id(n): u for _, n, u in self.nodes}
        self.node_hex = [u.hex for _, _, u in self.nodes]

    def uuid(self, nodespec):
        return self.uuid_of[id(nodespec)]

    def payload(self, minfo, sym):
        """Resolved payload: None | ('value', int) | ('node', nodespec)."""
        p = sym["payload"]
        if p is None:
            return None
        if "value" in p:
            return ("value", p["value"])
        if "block" in p:
            pool = minfo["blocks"] or minfo["proxies"]
        else:
            pool = minfo["proxies"] or minfo["blocks"]
        if not pool:
            return None
        idx = p.get("block", p.get("proxy"))
        return ("node", pool[idx % len(pool)])

    def entry(self, minfo):
        e = minfo["spec"]["entry"]
        em = minfo["spec"].get("entry_mod")
        if em is not None and self.mods:
            minfo = self.mods[em % len(self.mods)]
        if e is None or not minfo["code"]:
            return None
        return minfo["code"][e % len(minfo["code"])]

    def exprs(self, minfo, bi):
        """[(offset, exprspec, sym1spec, sym2spec)] — empty if the module has
        no symbols."""
        syms = minfo["symbols"]
        if not syms:
            return []
        out = []
        for e in bi["exprs"]:
            out.append((e["at"], e, syms[e["sym1"] % len(syms)], syms[e["sym2"] % len(syms)]))
        return out

    def edges(self):
        """[(srcspec, tgtspec, label)] de-duplicated by (src, tgt, label)."""
        if not self.cfg_nodes:
            return []
        out, seen = [], set()
        for e in self.spec["edges"]:
            s = self.cfg_nodes[e["src"] % len(self.cfg_nodes)]
            t = self.cfg_nodes[e["tgt"] % len(self.cfg_nodes)]
            lab = None if e["label"] is None else (int(e["label"][0]), bool(e["label"][1]), bool(e["label"][2]))
            key = (id(s), id(t), lab)
            if key in seen:
                continue
            seen.add(key)
            out.append((s, t, lab, e.get("how", 0)))
        return out

    def aux_value(self, entry):
        """(type tree, jv) with ATTACHED placeholders replaced by this IR's
        node UUIDs."""
        tree = auxgen.as_tree(entry["t"])
        return tree, resolve_aux(tree, entry["v"], self.node_hex)


def resolve_aux(tree, jv, node_hex):
    name, subs = tree

    def sub(h):
        if h in auxgen.ATTACHED:
            return node_hex[(int(h, 16) - 1) % len(node_hex)]
        return h

    if name == "UUID":
        return {"u": sub(jv["u"])}
    if name == "Offset":
        return {"o": sub(jv["o"]), "d": jv["d"]}
    if name in ("sequence", "set"):
        out = [resolve_aux(subs[0], x, node_hex) for x in jv]
        if name == "set":
            out = _dedupe(subs[0], out)
        return out
    if name == "mapping":
        out = [[resolve_aux(subs[0], k, node_hex), resolve_aux(subs[1], v, node_hex)] for k, v in jv]
        seen, keep = set(), []
        for k, v in out:
            kk = _ek(auxgen.eqkey(subs[0], k))
            if kk not in seen:
                seen.add(kk)
                keep.append([k, v])
        return keep
    if name == "tuple":
        return [resolve_aux(s, x, node_hex) for s, x in zip(subs, jv)]
    if name == "variant":
        return {"i": jv["i"], "v": resolve_aux(subs[jv["i"]], jv["v"], node_hex)}
    return jv


def _dedupe(tree, items):
    seen, keep = set(), []
    for x in items:
        k = _ek(auxgen.eqkey(tree, x))
        if k not in seen:
            seen.add(k)
            keep.append(x)
    return keep


def validate(spec):
    """Raise InvalidSpec unless the (possibly shrunk) spec is in the domain."""
    try:
        sc = schema()
        r = Resolved(spec)
        if not 0 <= spec["salt"] <= 0xFFFFFFFF:
            raise InvalidSpec("salt")
        for kind, n, _ in r.nodes:
            if kind == "Module":
                for f, pool in (("isa", "isa"), ("file_format", "file_format"), ("byte_order", "byte_order")):
                    if n[f] not in sc[pool]:
                        raise InvalidSpec(f)
                if not 0 <= n["preferred_addr"] <= U64 or not I64_MIN <= n["rebase_delta"] <= I64_MAX:
                    raise InvalidSpec("module ints")
                n["name"].encode("utf-8"), n["binary_path"].encode("utf-8")
            elif kind == "Section":
                if any(f not in sc["section_flag"] for f in n["flags"]) or len(set(n["flags"])) != len(n["flags"]):
                    raise InvalidSpec("flags")
                n["name"].encode("utf-8")
            elif kind == "ByteInterval":
                if n["address"] is not None and not 0 <= n["address"] <= U64:
                    raise InvalidSpec("address")
                if not len(n["contents"]) <= n["size"] <= U64:
                    raise InvalidSpec("size")
                if any(not 0 <= b <= 255 for b in n["contents"]):
                    raise InvalidSpec("contents")
                ats = [e["at"] for e in n["exprs"]]
                if len(set(ats)) != len(ats) or any(not 0 <= a <= U64 for a in ats):
                    raise InvalidSpec("expr offsets")
                for e in n["exprs"]:
                    if e["kind"] not in ("const", "addr"):
                        raise InvalidSpec("expr kind")
                    if not I64_MIN <= e["offset"] <= I64_MAX or not I64_MIN <= e["scale"] <= I64_MAX:
                        raise InvalidSpec("expr ints")
                    if len(set(e["attrs"])) != len(e["attrs"]) or any(not -(2**31) <= a < 2**31 for a in e["attrs"]):
                        raise InvalidSpec("attrs")
            elif kind in ("CodeBlock", "DataBlock"):
                if not 0 <= n["offset"] <= U64 or not 0 <= n["size"] <= U64:
                    raise InvalidSpec("block ints")
                if n["decode_mode"] not in sc["decode_mode"]:
                    raise InvalidSpec("decode mode")
            elif kind == "Symbol":
                p = n["payload"]
                if p is not None and "value" in p and not 0 <= p["value"] <= U64:
                    raise InvalidSpec("symbol value")
                n["name"].encode("utf-8")
        for e in spec["edges"]:
            if e["label"] is not None and e["label"][0] not in sc["edge_type"]:
                raise InvalidSpec("edge type")
        for holder in [spec["ir"]] + spec["modules"]:
            keys = [a["key"] for a in holder["aux"]]
            if len(set(keys)) != len(keys):
                raise InvalidSpec("aux keys")
            for a in holder["aux"]:
                a["key"].encode("utf-8")
                auxgen.validate(auxgen.as_tree(a["t"]), a["v"])
        return r
    except InvalidSpec:
        raise
    except auxgen.InvalidCase as e:
        raise InvalidSpec(str(e))
    except (KeyError, TypeError, IndexError, AttributeError, ValueError, UnicodeError) as e:
        raise InvalidSpec(repr(e))
