"""Independent reference implementation of the AuxData wire format, written
from the format description in property C08 / include/gtirb/AuxData.hpp:

  fixed-width little-endian integers and IEEE floats; bool = one byte;
  UUID = 16 raw (big-endian / RFC 4122 order) bytes; Offset = UUID + uint64;
  string = uint64 count of UTF-8 *bytes* + those bytes;
  sequence / set / mapping = uint64 element count + elements (mapping: key,
  value pairs); tuple = its fields in order; variant = uint64 index + value.

Types are trees (name, [subtrees]) as produced by vlib.tngrammar.  Values are
handled in a JSON model ("jv") that is independent of any gtirb object:

  integers  int            bool  bool          string  str
  float / double   {"f": "<16 hex digits: bits of the double>"}
  UUID      {"u": "<32 hex digits>"}
  Offset    {"o": "<32 hex digits>", "d": int}
  sequence, set, tuple   list           mapping  list of [key, value]
  variant   {"i": index, "v": value}

No use of `struct` for the encodings: integer arithmetic only.
"""

import struct  # only for jv <-> Python float conversion in the harness layer

INT_TYPES = {
    "int8_t": (1, True),
    "int16_t": (2, True),
    "int32_t": (4, True),
    "int64_t": (8, True),
    "uint8_t": (1, False),
    "uint16_t": (2, False),
    "uint32_t": (4, False),
    "uint64_t": (8, False),
    "Addr": (8, False),
}
LEAVES = list(INT_TYPES) + ["bool", "float", "double", "string", "UUID", "Offset"]
CONTAINERS = ["sequence", "set", "mapping", "tuple", "variant"]
KNOWN = set(LEAVES) | set(CONTAINERS)


class RefError(Exception):
    pass


class Unbuildable(RefError):
    """No Python value of this type can be handed to the API on this tree (a
    set element / mapping key that the API's own value class cannot hash)."""


class UnknownType(RefError):
    pass


def int_range(name):
    size, signed = INT_TYPES[name]
    if signed:
        return -(1 << (8 * size - 1)), (1 << (8 * size - 1)) - 1
    return 0, (1 << (8 * size)) - 1


def _le(value, size):
    value &= (1 << (8 * size)) - 1
    return bytes((value >> (8 * i)) & 0xFF for i in range(size))


def _from_le(data):
    v = 0
    for i, b in enumerate(data):
        v |= b << (8 * i)
    return v


def f64_to_f32_bits(b):
    """Round the double with bit pattern b to float32 (nearest, ties to even).
    Returns None when the result overflows the float32 range."""
    sign = b >> 63
    exp = (b >> 52) & 0x7FF
    man = b & ((1 << 52) - 1)
    if exp == 0x7FF:
        if man == 0:
            return (sign << 31) | 0x7F800000
        return (sign << 31) | 0x7FC00000 | (man >> 29)
    if exp == 0:
        return sign << 31  # zero or a double subnormal: far below float32
    e = exp - 1023
    m = (1 << 52) | man
    if e >= -126:
        shift = 29
        q = m >> shift
        r = m & ((1 << shift) - 1)
        half = 1 << (shift - 1)
        if r > half or (r == half and (q & 1)):
            q += 1
        if q == (1 << 24):
            q >>= 1
            e += 1
        if e > 127:
            return None
        return (sign << 31) | ((e + 127) << 23) | (q & 0x7FFFFF)
    shift = -97 - e
    if shift >= 54:
        return sign << 31
    q = m >> shift
    r = m & ((1 << shift) - 1)
    half = 1 << (shift - 1)
    if r > half or (r == half and (q & 1)):
        q += 1
    return (sign << 31) | q


def f32_bits_to_f64_bits(b):
    """Exact widening of a float32 bit pattern (integer arithmetic)."""
    sign = b >> 31
    exp = (b >> 23) & 0xFF
    man = b & 0x7FFFFF
    if exp == 0xFF:
        return (sign << 63) | (0x7FF << 52) | (man << 29)
    if exp == 0:
        if man == 0:
            return sign << 63
        # subnormal: normalise
        e = -126
        while not (man & 0x800000):
            man <<= 1
            e -= 1
        man &= 0x7FFFFF
        return (sign << 63) | ((e + 1023) << 52) | (man << 29)
    return (sign << 63) | ((exp - 127 + 1023) << 52) | (man << 29)


def is_nan_bits64(b):
    return ((b >> 52) & 0x7FF) == 0x7FF and (b & ((1 << 52) - 1)) != 0


# ------------------------------------------------------------------ encode


def encode(tree, jv):
    out = bytearray()
    _enc(tree, jv, out)
    return bytes(out)


def _enc(tree, jv, out):
    name, subs = tree
    if name in INT_TYPES:
        size, signed = INT_TYPES[name]
        lo, hi = int_range(name)
        if isinstance(jv, bool) or not isinstance(jv, int) or not lo <= jv <= hi:
            raise RefError("bad %s value %r" % (name, jv))
        out += _le(jv, size)
    elif name == "bool":
        if not isinstance(jv, bool):
            raise RefError("bad bool %r" % (jv,))
        out.append(1 if jv else 0)
    elif name == "double":
        out += _le(int(jv["f"], 16), 8)
    elif name == "float":
        b32 = f64_to_f32_bits(int(jv["f"], 16))
        if b32 is None:
            raise RefError("float32 overflow")
        out += _le(b32, 4)
    elif name == "string":
        data = jv.encode("utf-8")
        out += _le(len(data), 8)
        out += data
    elif name == "UUID":
        out += bytes.fromhex(jv["u"])
        if len(jv["u"]) != 32:
            raise RefError("bad uuid")
    elif name == "Offset":
        if len(jv["o"]) != 32:
            raise RefError("bad uuid")
        out += bytes.fromhex(jv["o"])
        out += _le(jv["d"], 8)
    elif name in ("sequence", "set"):
        (sub,) = subs
        out += _le(len(jv), 8)
        for item in jv:
            _enc(sub, item, out)
    elif name == "mapping":
        ksub, vsub = subs
        out += _le(len(jv), 8)
        for k, v in jv:
            _enc(ksub, k, out)
            _enc(vsub, v, out)
    elif name == "tuple":
        if len(jv) != len(subs):
            raise RefError("tuple arity")
        for sub, item in zip(subs, jv):
            _enc(sub, item, out)
    elif name == "variant":
        idx = jv["i"]
        if not 0 <= idx < len(subs):
            raise RefError("variant index")
        out += _le(idx, 8)
        _enc(subs[idx], jv["v"], out)
    else:
        raise UnknownType(name)


# ------------------------------------------------------------------ decode


class _Reader:
    def __init__(self, data):
        self.data = data
        self.pos = 0

    def take(self, n):
        if self.pos + n > len(self.data):
            raise RefError("truncated")
        chunk = self.data[self.pos : self.pos + n]
        self.pos += n
        return chunk


def decode(tree, data, max_count=1 << 20):
    """Return (jv, bytes consumed).  Sets and mappings are returned in stream
    order (repetitions preserved)."""
    r = _Reader(bytes(data))
    jv = _dec(tree, r, max_count)
    return jv, r.pos


def _dec(tree, r, max_count):
    name, subs = tree
    if name in INT_TYPES:
        size, signed = INT_TYPES[name]
        v = _from_le(r.take(size))
        if signed and v >= 1 << (8 * size - 1):
            v -= 1 << (8 * size)
        return v
    if name == "bool":
        return r.take(1) != b"\x00"
    if name == "double":
        return {"f": "%016x" % _from_le(r.take(8))}
    if name == "float":
        return {"f": "%016x" % f32_bits_to_f64_bits(_from_le(r.take(4)))}
    if name == "string":
        n = _from_le(r.take(8))
        return r.take(n).decode("utf-8")
    if name == "UUID":
        return {"u": r.take(16).hex()}
    if name == "Offset":
        u = r.take(16).hex()
        return {"o": u, "d": _from_le(r.take(8))}
    if name in ("sequence", "set"):
        (sub,) = subs
        n = _from_le(r.take(8))
        if n > max_count:
            raise RefError("count too large")
        return [_dec(sub, r, max_count) for _ in range(n)]
    if name == "mapping":
        ksub, vsub = subs
        n = _from_le(r.take(8))
        if n > max_count:
            raise RefError("count too large")
        return [[_dec(ksub, r, max_count), _dec(vsub, r, max_count)] for _ in range(n)]
    if name == "tuple":
        return [_dec(sub, r, max_count) for sub in subs]
    if name == "variant":
        idx = _from_le(r.take(8))
        if idx >= len(subs):
            raise RefError("variant index")
        return {"i": idx, "v": _dec(subs[idx], r, max_count)}
    raise UnknownType(name)


def all_known(tree):
    name, subs = tree
    return name in KNOWN and all(all_known(s) for s in subs)


def well_formed(tree):
    """Arity rules of the known container types."""
    name, subs = tree
    if name in ("sequence", "set"):
        ok = len(subs) == 1
    elif name == "mapping":
        ok = len(subs) == 2
    elif name in ("tuple", "variant"):
        ok = len(subs) >= 1
    elif name in KNOWN:
        ok = len(subs) == 0
    else:
        ok = True
    return ok and all(well_formed(s) for s in subs)


# ------------------------------------------------------- Python object layer


def bits_to_float(hexbits):
    return struct.unpack("<d", int(hexbits, 16).to_bytes(8, "little"))[0]


def float_to_bits(x):
    return "%016x" % int.from_bytes(struct.pack("<d", x), "little")


def to_python(tree, jv, gtirb, lookup, prefer_uuid=False, in_key=False):
    """Build the Python value gtirb.encode is given.  `lookup(uuid)` returns
    the attached node or None; attached nodes are passed as node objects unless
    prefer_uuid.  Inside a set element / mapping key (in_key) containers take
    their hashable forms: sequence -> tuple, set -> frozenset."""
    import uuid as _uuid

    name, subs = tree
    if name in INT_TYPES or name in ("bool", "string"):
        return jv
    if name in ("float", "double"):
        return bits_to_float(jv["f"])
    if name == "UUID":
        u = _uuid.UUID(hex=jv["u"])
        node = lookup(u)
        return u if node is None or prefer_uuid else node
    if name == "Offset":
        u = _uuid.UUID(hex=jv["o"])
        node = lookup(u)
        return gtirb.Offset(u if node is None or prefer_uuid else node, jv["d"])
    try:
        if name == "sequence":
            out = [to_python(subs[0], x, gtirb, lookup, prefer_uuid, in_key) for x in jv]
            return tuple(out) if in_key else out
        if name == "set":
            out = [to_python(subs[0], x, gtirb, lookup, prefer_uuid, True) for x in jv]
            return frozenset(out) if in_key else set(out)
        if name == "mapping":
            return {
                to_python(subs[0], k, gtirb, lookup, prefer_uuid, True): to_python(
                    subs[1], v, gtirb, lookup, prefer_uuid, in_key
                )
                for k, v in jv
            }
    except TypeError as e:
        if "unhashable" in str(e):
            raise Unbuildable(str(e))
        raise
    if name == "tuple":
        return tuple(to_python(s, x, gtirb, lookup, prefer_uuid, in_key) for s, x in zip(subs, jv))
    if name == "variant":
        return gtirb.Variant(jv["i"], to_python(subs[jv["i"]], jv["v"], gtirb, lookup, prefer_uuid, in_key))
    raise UnknownType(name)


def from_python(tree, pv):
    """Inverse of to_python *in the Python container's own iteration order*
    (so a reference encoding can be compared byte for byte)."""
    name, subs = tree
    if name in INT_TYPES or name in ("bool", "string"):
        return pv
    if name in ("float", "double"):
        return {"f": float_to_bits(pv)}
    if name == "UUID":
        return {"u": (pv.uuid if hasattr(pv, "uuid") else pv).hex}
    if name == "Offset":
        e = pv.element_id
        return {"o": (e.uuid if hasattr(e, "uuid") else e).hex, "d": pv.displacement}
    if name in ("sequence", "set"):
        return [from_python(subs[0], x) for x in pv]
    if name == "mapping":
        return [[from_python(subs[0], k), from_python(subs[1], v)] for k, v in pv.items()]
    if name == "tuple":
        return [from_python(s, x) for s, x in zip(subs, pv)]
    if name == "variant":
        return {"i": pv.index, "v": from_python(subs[pv.index], pv.val)}
    raise UnknownType(name)


def expected_python(tree, jv, gtirb, lookup, in_key=False):
    """What gtirb.decode must return for the encoding of jv: float32 rounded,
    attached UUIDs as node objects, others as uuid.UUID; inside a set element /
    mapping key sequences are tuples and sets frozensets."""
    import uuid as _uuid

    name, subs = tree
    if name in INT_TYPES or name in ("bool", "string"):
        return jv
    if name == "double":
        return bits_to_float(jv["f"])
    if name == "float":
        b32 = f64_to_f32_bits(int(jv["f"], 16))
        return bits_to_float("%016x" % f32_bits_to_f64_bits(b32))
    if name == "UUID":
        u = _uuid.UUID(hex=jv["u"])
        node = lookup(u)
        return u if node is None else node
    if name == "Offset":
        u = _uuid.UUID(hex=jv["o"])
        node = lookup(u)
        return gtirb.Offset(u if node is None else node, jv["d"])
    try:
        if name == "sequence":
            out = [expected_python(subs[0], x, gtirb, lookup, in_key) for x in jv]
            return tuple(out) if in_key else out
        if name == "set":
            out = [expected_python(subs[0], x, gtirb, lookup, True) for x in jv]
            return frozenset(out) if in_key else set(out)
        if name == "mapping":
            return {
                expected_python(subs[0], k, gtirb, lookup, True): expected_python(subs[1], v, gtirb, lookup, in_key)
                for k, v in jv
            }
    except TypeError as e:
        if "unhashable" in str(e):
            raise Unbuildable(str(e))
        raise
    if name == "tuple":
        return tuple(expected_python(s, x, gtirb, lookup, in_key) for s, x in zip(subs, jv))
    if name == "variant":
        return gtirb.Variant(jv["i"], expected_python(subs[jv["i"]], jv["v"], gtirb, lookup, in_key))
    raise UnknownType(name)


def same(tree, want, got, gtirb, path="$", in_key=False):
    """Structural equality of two decoded Python values of type `tree`:
    exact container types, ints exact (bool is not int), floats bit for bit
    (any NaN equals any NaN), nodes by identity.  Returns None or a message."""
    import math
    import uuid as _uuid

    name, subs = tree
    if name in INT_TYPES:
        if type(got) is not int or got != want:
            return "%s: %r != %r" % (path, got, want)
        return None
    if name == "bool":
        if type(got) is not bool or got != want:
            return "%s: %r != %r" % (path, got, want)
        return None
    if name == "string":
        if type(got) is not str or got != want:
            return "%s: %r != %r" % (path, got, want)
        return None
    if name in ("float", "double"):
        if type(got) is not float:
            return "%s: %r is not a float" % (path, got)
        if math.isnan(want):
            return None if math.isnan(got) else "%s: %r != nan" % (path, got)
        if float_to_bits(got) != float_to_bits(want):
            return "%s: %r != %r" % (path, got, want)
        return None
    if name == "UUID":
        if isinstance(want, _uuid.UUID):
            if type(got) is not _uuid.UUID or got != want:
                return "%s: %r != %r" % (path, got, want)
        elif got is not want:
            return "%s: %r is not the attached node %r" % (path, got, want)
        return None
    if name == "Offset":
        if type(got) is not gtirb.Offset:
            return "%s: %r is not an Offset" % (path, got)
        msg = same(("UUID", []), want.element_id, got.element_id, gtirb, path + ".element_id")
        if msg:
            return msg
        if type(got.displacement) is not int or got.displacement != want.displacement:
            return "%s.displacement: %r != %r" % (path, got.displacement, want.displacement)
        return None
    if name == "sequence":
        if type(got) is not (tuple if in_key else list) or len(got) != len(want):
            return "%s: %r != %r" % (path, got, want)
        for i, (w, g) in enumerate(zip(want, got)):
            msg = same(subs[0], w, g, gtirb, "%s[%d]" % (path, i), in_key)
            if msg:
                return msg
        return None
    if name == "set":
        if type(got) is not (frozenset if in_key else set) or len(got) != len(want):
            return "%s: %r != %r" % (path, got, want)
        rest = list(got)
        for w in want:
            for i, g in enumerate(rest):
                if same(subs[0], w, g, gtirb, "$", True) is None:
                    del rest[i]
                    break
            else:
                return "%s: element %r missing from %r" % (path, w, got)
        return None
    if name == "mapping":
        if type(got) is not dict or len(got) != len(want):
            return "%s: %r != %r" % (path, got, want)
        rest = list(got.items())
        for wk, wv in want.items():
            for i, (gk, gv) in enumerate(rest):
                if same(subs[0], wk, gk, gtirb, "$", True) is None:
                    msg = same(subs[1], wv, gv, gtirb, "%s[%r]" % (path, wk), in_key)
                    if msg:
                        return msg
                    del rest[i]
                    break
            else:
                return "%s: key %r missing from %r" % (path, wk, got)
        return None
    if name == "tuple":
        if type(got) is not tuple or len(got) != len(want):
            return "%s: %r != %r" % (path, got, want)
        for i, (s, w, g) in enumerate(zip(subs, want, got)):
            msg = same(s, w, g, gtirb, "%s.%d" % (path, i), in_key)
            if msg:
                return msg
        return None
    if name == "variant":
        if type(got) is not gtirb.Variant or got.index != want.index or type(got.index) is not int:
            return "%s: %r != %r" % (path, got, want)
        return same(subs[want.index], want.val, got.val, gtirb, path + ".val", in_key)
    raise UnknownType(name)
