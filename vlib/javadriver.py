"""Compile and run /verif/java/AuxDriver against the repository's Java
AuxData codec sources (property C08, Java cross check)."""

import hashlib
import os
import shutil
import subprocess

from . import build

JAVA_SRC = os.path.join(build.VERIF_ROOT, "java")


class JavaError(Exception):
    pass


def _sources(repo):
    base = os.path.join(repo, "java", "com", "grammatech", "gtirb")
    files = [os.path.join(base, "Offset.java"), os.path.join(base, "Util.java")]
    for sub in ("auxdatacodec", "tuple", "variant"):
        d = os.path.join(base, sub)
        files += sorted(os.path.join(d, f) for f in os.listdir(d) if f.endswith(".java"))
    files.append(os.path.join(JAVA_SRC, "com", "google", "protobuf", "ByteString.java"))
    files.append(os.path.join(JAVA_SRC, "AuxDriver.java"))
    return files


def compile_driver():
    """Compile (cached by source hash); return the class directory."""
    repo = build.repo_root()
    files = _sources(repo)
    h = hashlib.sha256()
    for f in files:
        h.update(f.encode() + b"\0")
        with open(f, "rb") as fh:
            h.update(fh.read())
    dest = os.path.join(build.BUILD_ROOT, "java-" + h.hexdigest()[:20])
    if os.path.exists(os.path.join(dest, ".ok")):
        return dest
    if shutil.which("javac") is None or shutil.which("java") is None:
        raise JavaError("javac/java not found")
    os.makedirs(build.BUILD_ROOT, exist_ok=True)
    tmp = dest + ".tmp%d" % os.getpid()
    shutil.rmtree(tmp, ignore_errors=True)
    os.makedirs(tmp)
    p = subprocess.run(
        ["javac", "-nowarn", "-Xlint:none", "-encoding", "UTF-8", "-d", tmp] + files,
        capture_output=True,
        text=True,
    )
    if p.returncode != 0:
        shutil.rmtree(tmp, ignore_errors=True)
        raise JavaError("javac failed:\n" + p.stdout[-2000:] + p.stderr[-2000:])
    open(os.path.join(tmp, ".ok"), "w").close()
    try:
        os.rename(tmp, dest)
    except OSError:
        shutil.rmtree(tmp, ignore_errors=True)
        if not os.path.exists(os.path.join(dest, ".ok")):
            raise
    return dest


def run_batch(lines, timeout=7200):
    """lines: [(type name, bytes)] -> list of ('OK', render, bytes, consumed) |
    ('ERR', message)."""
    classes = compile_driver()
    payload = "".join("%s\t%s\n" % (t, d.hex()) for t, d in lines)
    p = subprocess.run(
        ["java", "-Xss64m", "-XX:+UseSerialGC", "-XX:TieredStopAtLevel=1", "-cp", classes, "AuxDriver"],
        input=payload.encode("utf-8"),
        capture_output=True,
        timeout=timeout,
    )
    if p.returncode != 0:
        raise JavaError("java exit %d: %s" % (p.returncode, p.stderr.decode("utf-8", "replace")[-2000:]))
    out = []
    for raw in p.stdout.decode("utf-8").splitlines():
        parts = raw.split("\t")
        if parts[0] == "OK":
            out.append(("OK", parts[1], bytes.fromhex(parts[2]), int(parts[3])))
        else:
            out.append(("ERR", parts[1] if len(parts) > 1 else raw))
    if len(out) != len(lines):
        raise JavaError("java driver answered %d of %d lines" % (len(out), len(lines)))
    return out
