"""Reference recogniser / parser / printer for AuxData type names, written
from the grammar in property C15 (not from the implementation):

    T    ::= name | name '<' T (',' T)* '>'
    name ::= non-empty maximal run of characters other than '<' '>' ','

A tree is (name, [subtrees]).  Iterative (explicit stack), so it has no
recursion-depth limit of its own.
"""

DELIMS = "<>,"


class Reject(Exception):
    pass


def parse(s):
    """Return the tree for s, or raise Reject."""
    n = len(s)
    pos = 0
    root = None
    stack = []  # open nodes (their '<' was consumed, awaiting children / '>')
    # state: 'T' expecting a type, 'A' after a complete type
    state = "T"
    while True:
        if state == "T":
            start = pos
            while pos < n and s[pos] not in DELIMS:
                pos += 1
            if pos == start:
                raise Reject("name expected at %d" % pos)
            node = (s[start:pos], [])
            if stack:
                stack[-1][1].append(node)
            else:
                if root is not None:
                    raise Reject("two roots")
                root = node
            if pos < n and s[pos] == "<":
                pos += 1
                stack.append(node)
                state = "T"
            else:
                state = "A"
        else:  # after a complete type
            if pos == n:
                if stack:
                    raise Reject("unclosed '<'")
                return root
            c = s[pos]
            if c == "," and stack:
                pos += 1
                state = "T"
            elif c == ">" and stack:
                pos += 1
                stack.pop()
                state = "A"
            else:
                raise Reject("unexpected %r at %d" % (c, pos))


def accepts(s):
    try:
        parse(s)
        return True
    except Reject:
        return False


def to_string(tree):
    out = []
    # iterative printer
    work = [tree]
    while work:
        item = work.pop()
        if isinstance(item, str):
            out.append(item)
            continue
        name, subs = item
        out.append(name)
        if subs:
            out.append("<")
            tail = [">"]
            for i, sub in enumerate(reversed(subs)):
                tail.append(sub)
                if i != len(subs) - 1:
                    tail.append(",")
            work.extend(tail)
    return "".join(out)


def depth(tree):
    best = 0
    work = [(tree, 1)]
    while work:
        (name, subs), d = work.pop()
        best = max(best, d)
        for s in subs:
            work.append((s, d + 1))
    return best
