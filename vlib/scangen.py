"""Hypothesis strategies for vlib.scan programs (C05, C06, C12, C13)."""

from hypothesis import strategies as st

from . import progs

BIG = [1 << 32, 1 << 63, (1 << 64) - 1, (1 << 64) - 9]


def coord(hi=24):
    return st.one_of(st.integers(0, hi), st.integers(0, hi), st.integers(0, hi), st.sampled_from(BIG))


def small(hi=12):
    return st.one_of(st.integers(0, hi), st.integers(0, hi), st.integers(0, hi), st.sampled_from([0, 0, 1 << 32, (1 << 64) - 1]))


def addr():
    return st.one_of(st.none(), coord(), coord(), coord())


def qspec():
    point = st.one_of(st.integers(-1, 40), st.integers(-1, 40), st.sampled_from(BIG + [b + 1 for b in BIG] + [b - 1 for b in BIG]))
    rng = st.tuples(st.integers(-1, 40), st.integers(-1, 44), st.sampled_from([1, 1, 2, 3, 7])).map(list)
    bigr = st.tuples(st.sampled_from(BIG), st.integers(0, 20), st.sampled_from([1, 2, 3])).map(lambda t: [t[0] - 4, t[0] - 4 + t[1], t[2]])
    auto = st.fixed_dictionaries(
        {"auto": st.integers(0, 60), "d": st.sampled_from([0, 0, 0, -1, 1]),
         "len": st.one_of(st.none(), st.integers(0, 6)), "step": st.sampled_from([1, 1, 2, 3])}
    )
    return st.one_of(point, rng, bigr, auto, auto, auto)


def layout(exprs=False):
    ex = st.lists(st.tuples(small(10), st.integers(0, 5)).map(list), max_size=4) if exprs else st.just([])
    bi = st.fixed_dictionaries({"sec": st.one_of(st.integers(0, 2), st.integers(0, 2), st.integers(0, 2), st.integers(0, 2), st.just(-1)), "addr": addr(), "size": small(16), "exprs": ex})
    blk = st.fixed_dictionaries({"bi": st.one_of(st.integers(0, 5), st.integers(0, 5), st.integers(0, 5), st.integers(0, 5), st.just(-1)), "off": small(), "size": small(8), "code": st.booleans()})
    @st.composite
    def lay(draw):
        d = draw(base)
        if draw(st.sampled_from([False, False, True])):
            # dense: everything hangs under section 0 / intervals 0-1, so that the
            # indexes are large enough for several pending edits to be applied
            # incrementally (lazyintervaltree.py rebuilds once edits >= members)
            for b in d["bi"]:
                b["sec"] = 0
            for b in d["blk"]:
                b["bi"] = b["bi"] % 2 if b["bi"] >= 0 else 0
            d["sec"][0] = 0
            d["mod"][0] = 1
        return d

    base = st.fixed_dictionaries(
        {
            "mod": st.lists(st.sampled_from([1, 1, 1, 1, 1, 1, 1, 0]), min_size=2, max_size=2),
            "sec": st.lists(st.one_of(st.integers(0, 1), st.integers(0, 1), st.integers(0, 1), st.integers(0, 1), st.integers(0, 1), st.just(-1)), min_size=3, max_size=3),
            "bi": st.lists(bi, min_size=6, max_size=6),
            "blk": st.lists(blk, min_size=0, max_size=12),
        }
    )
    return lay()


def edit_ops(blocks=True, intervals=True, structure=True, symexpr=False, saveload=True):
    idx = st.integers(0, 9)
    ops = {}
    if blocks:
        ops["blk_off"] = progs.op("blk_off", k=idx, v=small())
        ops["blk_size"] = progs.op("blk_size", k=idx, v=small(8))
        ops["blk_off2"] = progs.op("blk_off2", k=idx, v=small(), w=small())
        ops["blk_move"] = progs.op("blk_move", k=idx, p=st.one_of(st.integers(0, 5), st.integers(0, 5), st.just(-1)), how=st.integers(0, 2))
        ops["blk_bulk"] = progs.op("blk_bulk", p=st.integers(0, 5), ks=st.lists(st.integers(0, 15), min_size=2, max_size=8), how=st.integers(0, 1))
        ops["blk_new"] = progs.op("blk_new", p=st.integers(0, 5), off=small(), size=small(8), code=st.booleans())
    if intervals:
        ops["bi_addr"] = progs.op("bi_addr", k=idx, v=addr())
        ops["bi_size"] = progs.op("bi_size", k=idx, v=small(16))
        ops["bi_addr2"] = progs.op("bi_addr2", k=idx, v=addr(), w=addr())
    if structure:
        ops["bi_bulk"] = progs.op("bi_bulk", p=st.integers(0, 2), ks=st.lists(st.integers(0, 5), min_size=2, max_size=5), how=st.integers(0, 1))
        ops["bi_move"] = progs.op("bi_move", k=idx, p=st.one_of(st.integers(0, 2), st.integers(0, 2), st.integers(0, 2), st.just(-1)), how=st.integers(0, 1))
        ops["sec_move"] = progs.op("sec_move", k=idx, p=st.one_of(st.integers(0, 1), st.integers(0, 1), st.integers(0, 1), st.just(-1)), how=st.integers(0, 1))
        ops["mod_move"] = progs.op("mod_move", k=idx, v=st.sampled_from([1, 1, 1, 0]), how=st.integers(0, 1))
    if symexpr:
        items = st.lists(st.tuples(small(10), st.integers(0, 5)).map(list), max_size=4)
        for f in ("set", "set", "del", "pop", "popitem", "setdefault", "update", "clear", "assign"):
            name = "se_" + f
            while name in ops:
                name += "'"
            ops[name] = progs.op(
                "se", k=idx, f=st.just(f), off=small(10), e=st.integers(0, 5), items=items, pairs=st.booleans(),
                src=st.sampled_from(["dict", "other", "self"]), o=idx,
            )
    if saveload:
        ops["saveload"] = progs.op("saveload")
    return ops


def query_spec(fams):
    return st.fixed_dictionaries(
        {
            "fam": st.sampled_from(fams),
            "scope": st.sampled_from(["bi", "bi", "sec", "mod", "ir", "ir"]),
            "i": st.integers(0, 5),
            "q": qspec(),
        }
    )


def cases(fams, max_len=30, **kw):
    """every edit op carries a (possibly empty) list 'qs' of lookups issued
    right after it; the per-case lookup density is drawn once"""
    ops = edit_ops(**kw)
    qs_dense = st.lists(query_spec(fams), min_size=1, max_size=3)
    qs_sparse = st.one_of(st.just([]), st.just([]), st.lists(query_spec(fams), max_size=1))

    @st.composite
    def case(draw):
        lay = draw(layout(exprs=kw.get("symexpr", False)))
        dense = draw(st.booleans())
        qs = qs_dense if dense else qs_sparse
        withq = {name: st.tuples(strat, qs).map(lambda t: dict(t[0], qs=t[1])) for name, strat in ops.items()}
        prog = draw(progs.programs(withq, max_len=max_len))
        first = draw(st.lists(query_spec(fams), max_size=2))
        return {"layout": lay, "first": first, "ops": prog}

    return case()
