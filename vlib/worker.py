"""Worker entry: `python -m vlib.worker <check module> <job.json> <out.json>`.

Runs one job of one check in a fresh interpreter (so the protobuf backend,
PYTHONHASHSEED and every bit of gtirb global state start clean)."""

import importlib
import json
import sys
import traceback


def _replay_doc(mod, doc, pbt):
    col = pbt.Collector(mod.ID)
    res = pbt.safe_run(lambda c: mod.replay(doc), doc.get("case"), mod.ID)
    col.record(doc.get("case"), res)
    out = col.result
    out["nontrivial_hashes"] = []
    out["samples"] = []
    for bucket, detail in res.failures:
        out["failures"].append(
            {"bucket": bucket, "case": doc.get("case"), "detail": detail, "hits": 1}
        )
    return out


def main(argv):
    modname, jobfile, outfile = argv[1:4]
    with open(jobfile) as f:
        job = json.load(f)
    try:
        from . import bootstrap, build, pbt

        bootstrap.ensure()
        build.activate()
        mod = importlib.import_module(modname)
        if job["kind"] == "replay":
            result = _replay_doc(mod, job["doc"], pbt)
        elif job["kind"] == "regress":
            result = pbt.new_job_result()
            for path in job["files"]:
                with open(path) as f:
                    doc = json.load(f)
                r = _replay_doc(mod, doc, pbt)
                result["evaluations"] += 1
                pbt.bump(result["counters"], "regress_replays")
                for fl in r["failures"]:
                    fl["bucket"] = "regress:" + fl["bucket"]
                    fl["detail"] = "regression replay %s fails again: %s" % (path, fl["detail"])
                    result["failures"].append(fl)
        else:
            result = mod.run_job(job)
    except BaseException as e:  # noqa
        result = {"errors": ["%s\n%s" % (repr(e), traceback.format_exc()[-3000:])]}
    with open(outfile, "w") as f:
        json.dump(result, f, default=str)
    return 0


if __name__ == "__main__":
    sys.exit(main(sys.argv))
