"""Lookup engine for C05, C06, C12 and C13.

A world is one IR with modules / sections / byte intervals / blocks /
symbolic expressions held in harness-owned registries, plus a plain-data
reference model of the same structure.  `apply(op)` performs one edit on
both; `query(q)` evaluates every lookup method of a family at a scope and
compares the answers with *linear scans of the model* written from the
property texts (nothing of gtirb's indexes is consulted).

Queries are {"fam": blocks|intervals|sections|extent|symexpr, "scope": bi|sec|mod|ir,
"i": index, "q": int | [start, stop, step]}.
"""

import io
import uuid

U64 = (1 << 64) - 1


class Skip(Exception):
    pass


def U(i):
    return uuid.UUID(int=(0x5CA9 << 64) | i)


def qrange(q):
    if isinstance(q, int):
        return range(q, q + 1)
    start, stop, step = q
    return range(start, stop, step if step and step > 0 else 1)


class World:
    N_MOD, N_SEC, N_BI, N_BLK, N_EXPR = 2, 3, 6, 12, 6

    def __init__(self, g, layout):
        self.g = g
        self.fail = []
        self.nonempty = False
        self.noops = 0
        self.counter = 0
        self.regimes = set()
        self.ir = g.IR(uuid=U(1))
        self.mods, self.secs, self.bis, self.blks = [], [], [], []
        # model
        self.m_mod = []  # attached: bool
        self.m_order = []  # model of ir.modules (module indices)
        self.m_sec = []  # module idx | None
        self.m_bi = []  # {"sec": idx|None, "addr": int|None, "size": int, "exprs": {off: expr idx}}
        self.m_blk = []  # {"bi": idx|None, "off": int, "size": int, "code": bool}
        self.pending = {}  # ("bi", i) / ("sec", i) -> pending index events (coverage bookkeeping only)
        self.built = set()
        sym = g.Symbol("s", uuid=U(2))
        self.sym = sym
        self.exprs = [g.SymAddrConst(i, sym) for i in range(self.N_EXPR)]
        for i in range(self.N_MOD):
            att = bool(layout.get("mod", [1] * self.N_MOD)[i] if i < len(layout.get("mod", [])) else 1)
            m = g.Module(name="m%d" % i, uuid=U(10 + i), ir=self.ir if att else None)
            self.mods.append(m)
            self.m_mod.append(att)
            if att:
                self.m_order.append(i)
        sym.module = self.mods[0]
        for i in range(self.N_SEC):
            p = _pick(layout.get("sec", []), i, self.N_MOD)
            s = g.Section(name="s%d" % i, uuid=U(20 + i), module=None if p is None else self.mods[p])
            self.secs.append(s)
            self.m_sec.append(p)
        for i in range(self.N_BI):
            spec = (layout.get("bi", []) + [{}] * self.N_BI)[i]
            p = _pick([spec.get("sec", i % self.N_SEC)], 0, self.N_SEC)
            addr = spec.get("addr", 8 * i)
            size = spec.get("size", 8)
            ex = {}
            for off, e in spec.get("exprs", []):
                ex[off] = e % self.N_EXPR
            bi = g.ByteInterval(
                uuid=U(30 + i),
                address=addr,
                size=size,
                symbolic_expressions={o: self.exprs[e] for o, e in ex.items()},
                section=None if p is None else self.secs[p],
            )
            self.bis.append(bi)
            self.m_bi.append({"sec": p, "addr": addr, "size": size, "exprs": ex})
        for i, spec in enumerate(layout.get("blk", [])[: self.N_BLK]):
            self.new_block(spec.get("bi", i % self.N_BI), spec.get("off", i), spec.get("size", 2), spec.get("code", i % 2 == 0))

    # ------------------------------------------------------------ helpers
    def failf(self, bucket, detail):
        self.fail.append((bucket, str(detail)[:1500]))

    def new_block(self, bi, off, size, code):
        g = self.g
        p = None if bi is None or bi < 0 else bi % len(self.bis)
        cls = g.CodeBlock if code else g.DataBlock
        b = cls(uuid=U(100 + len(self.blks)), offset=off, size=size, byte_interval=None if p is None else self.bis[p])
        self.blks.append(b)
        self.m_blk.append({"bi": p, "off": off, "size": size, "code": bool(code)})
        if p is not None:
            self.bump(("bi", p), 1)

    def bump(self, key, n):
        self.pending[key] = self.pending.get(key, 0) + n

    def touch(self, key, size):
        """coverage bookkeeping: classify the regime a lookup on this index is in"""
        if key not in self.built:
            self.built.add(key)
            self.regimes.add("first-use")
        else:
            p = self.pending.get(key, 0)
            if p == 0:
                self.regimes.add("no-pending")
            elif p < size:
                self.regimes.add("pending<size")
            elif p == size:
                self.regimes.add("pending=size")
            else:
                self.regimes.add("pending>size")
        self.pending[key] = 0

    # ------------------------------------------------------------ edits
    def apply(self, op):
        name = op["op"]
        try:
            getattr(self, "op_" + name)(op)
            return True
        except Skip:
            self.noops += 1
            return False

    def _blk(self, op):
        if not self.blks:
            raise Skip()
        return op["k"] % len(self.blks)

    def op_blk_off(self, op):
        k = self._blk(op)
        self.blks[k].offset = op["v"]
        self.m_blk[k]["off"] = op["v"]
        if self.m_blk[k]["bi"] is not None:
            self.bump(("bi", self.m_blk[k]["bi"]), 2)

    def op_blk_off2(self, op):
        """two edits of one block with no lookup in between"""
        k = self._blk(op)
        for v in (op["v"], op["w"]):
            self.blks[k].offset = v
            self.m_blk[k]["off"] = v
            if self.m_blk[k]["bi"] is not None:
                self.bump(("bi", self.m_blk[k]["bi"]), 2)

    def op_bi_addr2(self, op):
        k = op["k"] % len(self.bis)
        for v in (op["v"], op["w"]):
            old = self.m_bi[k]["addr"]
            self.bis[k].address = v
            self.m_bi[k]["addr"] = v
            if self.m_bi[k]["sec"] is not None:
                self.bump(("sec", self.m_bi[k]["sec"]), (old is not None) + (v is not None))

    def op_blk_size(self, op):
        k = self._blk(op)
        self.blks[k].size = op["v"]
        self.m_blk[k]["size"] = op["v"]
        if self.m_blk[k]["bi"] is not None:
            self.bump(("bi", self.m_blk[k]["bi"]), 2)

    def op_blk_move(self, op):
        k = self._blk(op)
        p = None if op["p"] < 0 else op["p"] % len(self.bis)
        old = self.m_blk[k]["bi"]
        how = op.get("how", 0) % 3
        if p is None:
            if how == 1 and old is not None:
                self.bis[old].blocks.discard(self.blks[k])
            else:
                self.blks[k].byte_interval = None
        elif how == 0:
            self.blks[k].byte_interval = self.bis[p]
        elif how == 1:
            self.bis[p].blocks.add(self.blks[k])
        else:
            self.bis[p].blocks.update([self.blks[k]])
        if old is not None:
            self.bump(("bi", old), 1)
        if p is not None:
            self.bump(("bi", p), 1)
        self.m_blk[k]["bi"] = p

    def op_blk_bulk(self, op):
        """several blocks moved into one interval by a single blocks.update()"""
        if not self.blks:
            raise Skip()
        p = op["p"] % len(self.bis)
        ks = list(dict.fromkeys(k % len(self.blks) for k in op.get("ks", [])))
        if not ks:
            raise Skip()
        args = [self.blks[k] for k in ks]
        if op.get("how", 0) % 2:
            self.bis[p].blocks.update(args[: len(args) // 2], args[len(args) // 2 :])
        else:
            self.bis[p].blocks.update(iter(args))
        for k in ks:
            old = self.m_blk[k]["bi"]
            if old == p:
                continue
            if old is not None:
                self.bump(("bi", old), 1)
            self.bump(("bi", p), 1)
            self.m_blk[k]["bi"] = p

    def op_bi_bulk(self, op):
        """several intervals moved into one section by a single update() / |="""
        p = op["p"] % len(self.secs)
        ks = list(dict.fromkeys(k % len(self.bis) for k in op.get("ks", [])))
        if not ks:
            raise Skip()
        args = [self.bis[k] for k in ks]
        if op.get("how", 0) % 2:
            self.secs[p].byte_intervals.update(args)
        else:
            self.secs[p].byte_intervals |= dict.fromkeys(args).keys()
        for k in ks:
            old = self.m_bi[k]["sec"]
            if old == p:
                continue
            has = self.m_bi[k]["addr"] is not None
            if old is not None and has:
                self.bump(("sec", old), 1)
            if has:
                self.bump(("sec", p), 1)
            self.m_bi[k]["sec"] = p

    def op_blk_new(self, op):
        if len(self.blks) >= 16:
            raise Skip()
        self.new_block(op["p"], op["off"], op["size"], op.get("code", True))

    def op_bi_addr(self, op):
        k = op["k"] % len(self.bis)
        self.bis[k].address = op["v"]
        old = self.m_bi[k]["addr"]
        self.m_bi[k]["addr"] = op["v"]
        if self.m_bi[k]["sec"] is not None:
            self.bump(("sec", self.m_bi[k]["sec"]), (old is not None) + (op["v"] is not None))

    def op_bi_size(self, op):
        k = op["k"] % len(self.bis)
        self.bis[k].size = op["v"]
        self.m_bi[k]["size"] = op["v"]
        if self.m_bi[k]["sec"] is not None and self.m_bi[k]["addr"] is not None:
            self.bump(("sec", self.m_bi[k]["sec"]), 2)

    def op_bi_move(self, op):
        k = op["k"] % len(self.bis)
        p = None if op["p"] < 0 else op["p"] % len(self.secs)
        old = self.m_bi[k]["sec"]
        how = op.get("how", 0) % 2
        if p is None:
            if how == 1 and old is not None:
                self.secs[old].byte_intervals.discard(self.bis[k])
            else:
                self.bis[k].section = None
        elif how == 0:
            self.bis[k].section = self.secs[p]
        else:
            self.secs[p].byte_intervals.add(self.bis[k])
        has = self.m_bi[k]["addr"] is not None
        if old is not None and has:
            self.bump(("sec", old), 1)
        if p is not None and has:
            self.bump(("sec", p), 1)
        self.m_bi[k]["sec"] = p

    def op_sec_move(self, op):
        k = op["k"] % len(self.secs)
        p = None if op["p"] < 0 else op["p"] % len(self.mods)
        if p is None:
            self.secs[k].module = None
        elif op.get("how", 0) % 2 == 0:
            self.secs[k].module = self.mods[p]
        else:
            self.mods[p].sections.add(self.secs[k])
        self.m_sec[k] = p

    def op_mod_move(self, op):
        k = op["k"] % len(self.mods)
        att = bool(op["v"])
        if att:
            if op.get("how", 0) % 2 == 0:
                self.mods[k].ir = self.ir
                if k in self.m_order:
                    self.m_order.remove(k)
                self.m_order.append(k)
            elif not self.m_mod[k]:
                self.ir.modules.append(self.mods[k])
                self.m_order.append(k)
        else:
            self.mods[k].ir = None
            if k in self.m_order:
                self.m_order.remove(k)
        self.m_mod[k] = att

    # symbolic expressions
    def op_se(self, op):
        k = op["k"] % len(self.bis)
        bi = self.bis[k]
        model = self.m_bi[k]["exprs"]
        f = op["f"]
        off = op.get("off", 0)
        e = op.get("e", 0) % self.N_EXPR
        m = bi.symbolic_expressions
        if f == "set":
            m[off] = self.exprs[e]
            model[off] = e
        elif f == "del":
            if off not in model:
                raise Skip()
            del m[off]
            del model[off]
        elif f == "pop":
            m.pop(off, None)
            model.pop(off, None)
        elif f == "popitem":
            if not model:
                raise Skip()
            ko, _ = m.popitem()
            if ko not in model:
                self.failf("symexpr:popitem-nonmember", repr(ko))
                raise Skip()
            del model[ko]
        elif f == "setdefault":
            m.setdefault(off, self.exprs[e])
            model.setdefault(off, e)
        elif f == "update":
            items = {o: x % self.N_EXPR for o, x in op.get("items", [])}
            if op.get("pairs"):
                m.update([(o, self.exprs[x]) for o, x in items.items()])
            else:
                m.update({o: self.exprs[x] for o, x in items.items()})
            model.update(items)
        elif f == "clear":
            m.clear()
            model.clear()
        elif f == "assign":
            src = op.get("src", "dict")
            if src == "dict":
                items = {o: x % self.N_EXPR for o, x in op.get("items", [])}
                bi.symbolic_expressions = {o: self.exprs[x] for o, x in items.items()}
                new = items
            elif src == "other":
                o2 = op.get("o", 0) % len(self.bis)
                bi.symbolic_expressions = self.bis[o2].symbolic_expressions
                new = dict(self.m_bi[o2]["exprs"])
            else:
                bi.symbolic_expressions = bi.symbolic_expressions
                new = dict(model)
            self.m_bi[k]["exprs"] = new
        else:
            raise ValueError(f)

    def op_saveload(self, op):
        g = self.g
        # expressions name self.sym, which lives in module 0; the loader decodes
        # modules in list order, so the file is self-contained only if module 0
        # is attached and not behind a module holding expressions
        for k, b in enumerate(self.m_bi):
            if b["exprs"] and b["sec"] is not None and self.m_sec[b["sec"]] is not None:
                m = self.m_sec[b["sec"]]
                if not self.m_mod[m]:
                    continue
                if not self.m_mod[0] or self.m_order.index(0) > self.m_order.index(m):
                    raise Skip()
        buf = io.BytesIO()
        self.ir.save_protobuf_file(buf)
        ir2 = g.IR.load_protobuf_file(io.BytesIO(buf.getvalue()))

        def remap(objs, model_attached):
            out = []
            for o, att in zip(objs, model_attached):
                n = ir2.get_by_uuid(o.uuid) if att else None
                if att and n is None:
                    self.failf("scan:node-lost-by-load", repr(o.uuid))
                    raise Skip()
                out.append(n)
            return out

        # nodes attached to the IR are replaced by their loaded twins; detached
        # nodes (and whatever hangs below them) stay the objects they were
        att_mod = list(self.m_mod)
        att_sec = [p is not None and att_mod[p] for p in self.m_sec]
        att_bi = [b["sec"] is not None and att_sec[b["sec"]] for b in self.m_bi]
        att_blk = [b["bi"] is not None and att_bi[b["bi"]] for b in self.m_blk]
        new_mods = remap(self.mods, att_mod)
        new_secs = remap(self.secs, att_sec)
        new_bis = remap(self.bis, att_bi)
        new_blks = remap(self.blks, att_blk)
        self.mods = [n if a else o for n, o, a in zip(new_mods, self.mods, att_mod)]
        self.secs = [n if a else o for n, o, a in zip(new_secs, self.secs, att_sec)]
        self.bis = [n if a else o for n, o, a in zip(new_bis, self.bis, att_bi)]
        self.blks = [n if a else o for n, o, a in zip(new_blks, self.blks, att_blk)]
        self.ir = ir2
        if att_mod[0]:
            self.sym = ir2.get_by_uuid(self.sym.uuid)
        self.loaded_exprs = True
        self.built = set()
        self.pending = {}

    # ------------------------------------------------------------ model scans
    def blocks_in(self, scope, i):
        """model indices of blocks inside a scope"""
        out = []
        for k, b in enumerate(self.m_blk):
            if b["bi"] is None:
                continue
            if self.bi_in(scope, i, b["bi"]):
                out.append(k)
        return out

    def bi_in(self, scope, i, bk):
        if scope == "bi":
            return bk == i
        s = self.m_bi[bk]["sec"]
        if s is None:
            return False
        if scope == "sec":
            return s == i
        m = self.m_sec[s]
        if m is None:
            return False
        if scope == "mod":
            return m == i
        return self.m_mod[m]

    def bis_in(self, scope, i):
        return [k for k in range(len(self.m_bi)) if scope != "bi" and self.bi_in(scope, i, k)]

    def secs_in(self, scope, i):
        out = []
        for k, m in enumerate(self.m_sec):
            if m is None:
                continue
            if scope == "mod" and m == i:
                out.append(k)
            elif scope == "ir" and self.m_mod[m]:
                out.append(k)
        return out

    def sec_extent(self, k):
        bis = [b for b in self.m_bi if b["sec"] == k]
        if not bis or any(b["addr"] is None for b in bis):
            return None, None
        lo = min(b["addr"] for b in bis)
        hi = max(b["addr"] + b["size"] for b in bis)
        return lo, hi - lo

    def scope_obj(self, scope, i):
        return {"bi": self.bis, "sec": self.secs, "mod": self.mods}[scope][i] if scope != "ir" else self.ir

    # ------------------------------------------------------------ queries
    def query(self, qd, where):
        fam = qd["fam"]
        scope = qd["scope"]
        n = {"bi": len(self.bis), "sec": len(self.secs), "mod": len(self.mods), "ir": 1}[scope]
        i = qd.get("i", 0) % n
        obj = self.scope_obj(scope, i)
        q = self.resolve_q(qd["q"])
        arg = q if isinstance(q, int) else qrange(q)
        r = qrange(q)
        lo, hi = r.start, r.stop
        if fam == "blocks":
            self.q_blocks(scope, i, obj, arg, r, lo, hi, where)
        elif fam == "intervals":
            self.q_intervals(scope, i, obj, arg, r, lo, hi, where)
        elif fam == "sections":
            self.q_sections(scope, i, obj, arg, r, lo, hi, where)
        elif fam == "extent":
            self.q_extent(where)
        elif fam == "symexpr":
            self.q_symexpr(scope, i, obj, arg, r, where)
        else:
            raise ValueError(fam)

    def resolve_q(self, q):
        """{"auto": k, "len": n, "step": s}: a query anchored at the k-th
        boundary point of the current model (block / interval / expression
        edges +-1), so that lookups hit something"""
        if isinstance(q, dict):
            pts = self.boundary_points() or [0]
            p = pts[q.get("auto", 0) % len(pts)] + q.get("d", 0)
            n = q.get("len")
            if n is None:
                return p
            return [p, p + n, q.get("step", 1) or 1]
        return q

    def _touch_blocks(self, scope, i):
        for bk in ([i] if scope == "bi" else self.bis_in(scope, i)):
            self.touch(("bi", bk), sum(1 for b in self.m_blk if b["bi"] == bk))
        self._touch_secs(scope, i)

    def _touch_secs(self, scope, i):
        if scope == "bi":
            return
        secs = [i] if scope == "sec" else self.secs_in(scope, i)
        for s in secs:
            self.touch(("sec", s), sum(1 for b in self.m_bi if b["sec"] == s))

    def q_blocks(self, scope, i, obj, arg, r, lo, hi, where):
        g = self.g
        self._touch_blocks(scope, i)
        members = self.blocks_in(scope, i)
        exact = scope == "bi"

        def addr(k):
            a = self.m_bi[self.m_blk[k]["bi"]]["addr"]
            return None if a is None else a + self.m_blk[k]["off"]

        def on_may(k):
            b = self.m_blk[k]
            a = addr(k)
            return a is not None and b["size"] > 0 and max(a, lo) < min(a + b["size"], hi)

        def on_must(k):
            b = self.m_blk[k]
            bi = self.m_bi[b["bi"]]
            a = addr(k)
            if a is None or b["size"] <= 0:
                return False
            s = max(a, lo, bi["addr"])
            e = min(a + b["size"], hi, bi["addr"] + bi["size"])
            return s < e

        def at_may(k):
            a = addr(k)
            return a is not None and a in r

        def at_must(k):
            bi = self.m_bi[self.m_blk[k]["bi"]]
            a = addr(k)
            return a is not None and a in r and bi["addr"] <= a < bi["addr"] + bi["size"]

        for kind, flt in (("byte", lambda k: True), ("code", lambda k: self.m_blk[k]["code"]), ("data", lambda k: not self.m_blk[k]["code"])):
            for mode, may_f, must_f in (("on", on_may, on_must), ("at", at_may, at_must)):
                meth = "%s_blocks_%s" % (kind, mode)
                got = [self.blk_index(b) for b in getattr(obj, meth)(arg)]
                may = {k for k in members if flt(k) and may_f(k)}
                must = may if exact else {k for k in members if flt(k) and must_f(k)}
                self.judge("blocks:%s:%s" % (meth, "interval" if exact else "scoped"), got, must, may, where, "%s%d.%s(%r)" % (scope, i, meth, arg))
        if scope == "bi":
            # offset variants ignore the address
            for kind, flt in (("byte", lambda k: True), ("code", lambda k: self.m_blk[k]["code"]), ("data", lambda k: not self.m_blk[k]["code"])):
                meth = "%s_blocks_on_offset" % kind
                got = [self.blk_index(b) for b in getattr(obj, meth)(arg)]
                want = {k for k in members if flt(k) and self.m_blk[k]["size"] > 0 and max(self.m_blk[k]["off"], lo) < min(self.m_blk[k]["off"] + self.m_blk[k]["size"], hi)}
                self.judge("blocks:" + meth, got, want, want, where, "bi%d.%s(%r)" % (i, meth, arg))
                meth = "%s_blocks_at_offset" % kind
                got = [self.blk_index(b) for b in getattr(obj, meth)(arg)]
                want = {k for k in members if flt(k) and self.m_blk[k]["off"] in r}
                self.judge("blocks:" + meth, got, want, want, where, "bi%d.%s(%r)" % (i, meth, arg))

    def blk_index(self, b):
        for k, x in enumerate(self.blks):
            if x is b:
                return k
        return ("foreign", repr(b))

    def judge(self, bucket, got, must, may, where, call):
        if got:
            self.nonempty = True
        if len(got) != len(set(map(str, got))):
            self.failf(bucket + ":duplicates", "%s: %s -> %r" % (where, call, got))
            return
        gs = set(got)
        if not (must <= gs):
            self.failf(bucket + ":missing", "%s: %s -> %r, scan requires %r" % (where, call, sorted(map(str, gs)), sorted(must)))
        elif not (gs <= may):
            self.failf(bucket + ":spurious", "%s: %s -> %r, scan allows %r" % (where, call, sorted(map(str, gs)), sorted(may)))

    def q_intervals(self, scope, i, obj, arg, r, lo, hi, where):
        if scope == "bi":
            raise Skip()
        self._touch_secs(scope, i)
        members = self.bis_in(scope, i)
        on = {k for k in members if self.m_bi[k]["addr"] is not None and self.m_bi[k]["size"] > 0 and max(self.m_bi[k]["addr"], lo) < min(self.m_bi[k]["addr"] + self.m_bi[k]["size"], hi)}
        at = {k for k in members if self.m_bi[k]["addr"] is not None and self.m_bi[k]["addr"] in r}
        for meth, want in (("byte_intervals_on", on), ("byte_intervals_at", at)):
            got = [self.index_in(self.bis, x) for x in getattr(obj, meth)(arg)]
            self.judge("intervals:" + meth, got, want, want, where, "%s%d.%s(%r)" % (scope, i, meth, arg))

    def q_sections(self, scope, i, obj, arg, r, lo, hi, where):
        if scope in ("bi", "sec"):
            raise Skip()
        self._touch_secs(scope, i)
        members = self.secs_in(scope, i)
        on, at = set(), set()
        for k in members:
            a, sz = self.sec_extent(k)
            if a is None:
                continue
            if sz > 0 and max(a, lo) < min(a + sz, hi):
                on.add(k)
            if a in r:
                at.add(k)
        for meth, want in (("sections_on", on), ("sections_at", at)):
            got = [self.index_in(self.secs, x) for x in getattr(obj, meth)(arg)]
            self.judge("sections:" + meth, got, want, want, where, "%s%d.%s(%r)" % (scope, i, meth, arg))

    def q_extent(self, where):
        for k, s in enumerate(self.secs):
            self.touch(("sec", k), sum(1 for b in self.m_bi if b["sec"] == k))
            want = self.sec_extent(k)
            got = (s.address, s.size)
            if got != want:
                self.failf("extent:section-address-size", "%s: sec%d (address, size) = %r, scan says %r" % (where, k, got, want))

    def index_in(self, pool, o):
        for k, x in enumerate(pool):
            if x is o:
                return k
        return ("foreign", repr(o))

    def expr_ok(self, bk, off, x):
        """identity of the stored expression (value equality after a reload)"""
        want = self.exprs[self.m_bi[bk]["exprs"][off]]
        if x is want:
            return True
        return getattr(self, "loaded_exprs", False) and isinstance(x, self.g.SymAddrConst) and x.offset == want.offset

    def q_symexpr(self, scope, i, obj, arg, r, where):
        self._touch_secs(scope, i)
        if scope == "bi":
            bi = self.m_bi[i]
            for meth, key in (("symbolic_expressions_at", lambda o: None if bi["addr"] is None else bi["addr"] + o),
                              ("symbolic_expressions_at_offset", lambda o: o)):
                got = list(getattr(obj, meth)(arg))
                if got:
                    self.nonempty = True
                want = [o for o in sorted(bi["exprs"]) if key(o) is not None and key(o) in r]
                ok = len(got) == len(want) and all(
                    isinstance(t, tuple) and len(t) == 3 and t[0] is obj and t[1] == o and self.expr_ok(i, o, t[2])
                    for t, o in zip(got, want)
                )
                if not ok:
                    self.failf(
                        "symexpr:" + meth,
                        "%s: bi%d.%s(%r) -> offsets %r, scan says %r" % (where, i, meth, arg, [t[1] if isinstance(t, tuple) and len(t) == 3 else t for t in got], want),
                    )
            return
        members = self.bis_in(scope, i)
        got = list(obj.symbolic_expressions_at(arg))
        may, must = set(), set()
        for k in members:
            bi = self.m_bi[k]
            if bi["addr"] is None:
                continue
            for o in bi["exprs"]:
                if bi["addr"] + o in r:
                    may.add((k, o))
                    if o < bi["size"]:
                        must.add((k, o))
        keys = []
        for t in got:
            if not (isinstance(t, tuple) and len(t) == 3):
                self.failf("symexpr:scoped:shape", "%s: %r" % (where, t))
                return
            k = self.index_in(self.bis, t[0])
            keys.append((k, t[1]))
            if (k, t[1]) in may and not self.expr_ok(k, t[1], t[2]):
                self.failf("symexpr:scoped:wrong-expression", "%s: %s%d (%r, %r)" % (where, scope, i, k, t[1]))
                return
        self.judge("symexpr:scoped", keys, must, may, where, "%s%d.symbolic_expressions_at(%r)" % (scope, i, arg))
        per = {}
        for k, o in keys:
            per.setdefault(k, []).append(o)
        for k, offs in per.items():
            if offs != sorted(offs):
                self.failf("symexpr:scoped:order", "%s: interval %r offsets %r" % (where, k, offs))

    # ------------------------------------------------------------ batteries
    def boundary_points(self):
        pts = set()
        for b in self.m_blk:
            if b["bi"] is None:
                continue
            a = self.m_bi[b["bi"]]["addr"]
            for base in ([0] if a is None else [0, a]):
                for d in (b["off"] - 1, b["off"], b["off"] + b["size"] - 1, b["off"] + b["size"]):
                    pts.add(base + d)
        for bi in self.m_bi:
            if bi["addr"] is not None:
                pts |= {bi["addr"] - 1, bi["addr"], bi["addr"] + bi["size"] - 1, bi["addr"] + bi["size"]}
                for o in bi["exprs"]:
                    pts.add(bi["addr"] + o)
        return sorted(p for p in pts if -2 <= p)

    def full_battery(self, where, fams=("blocks", "intervals", "sections", "extent", "symexpr"), max_points=40):
        pts = self.boundary_points()
        if len(pts) > max_points:
            step = len(pts) / float(max_points - 1)
            pts = sorted({pts[min(len(pts) - 1, int(k * step))] for k in range(max_points)} | {pts[-1]})
        scopes = [("ir", 0)] + [("mod", k) for k in range(len(self.mods))] + [("sec", k) for k in range(len(self.secs))] + [("bi", k) for k in range(len(self.bis))]
        for fam in fams:
            if fam == "extent":
                self.query({"fam": "extent", "scope": "ir", "q": 0}, where)
                continue
            for scope, i in scopes:
                if fam == "intervals" and scope == "bi":
                    continue
                if fam == "sections" and scope in ("bi", "sec"):
                    continue
                for p in pts:
                    self.query({"fam": fam, "scope": scope, "i": i, "q": p}, where)
                if pts:
                    lo, hi = pts[0], pts[-1]
                    for q in ([lo, hi + 1, 1], [lo, hi + 1, 3], [lo + 1, hi, 2], [hi, lo, 1]):
                        self.query({"fam": fam, "scope": scope, "i": i, "q": q}, where)

    def answers(self, queries):
        """raw answers (as index lists) for the metamorphic comparison of C12"""
        out = []
        for qd in queries:
            fam, scope = qd["fam"], qd["scope"]
            n = {"bi": len(self.bis), "sec": len(self.secs), "mod": len(self.mods), "ir": 1}[scope]
            i = qd.get("i", 0) % n
            obj = self.scope_obj(scope, i)
            q = self.resolve_q(qd["q"])
            arg = q if isinstance(q, int) else qrange(q)
            if fam == "extent":
                out.append([(s.address, s.size) for s in self.secs])
            elif fam == "blocks":
                row = []
                for meth in ("byte_blocks_on", "byte_blocks_at", "code_blocks_on", "data_blocks_at"):
                    row.append(sorted(map(str, (self.blk_index(b) for b in getattr(obj, meth)(arg)))))
                if scope == "bi":
                    for meth in ("byte_blocks_on_offset", "byte_blocks_at_offset"):
                        row.append(sorted(map(str, (self.blk_index(b) for b in getattr(obj, meth)(arg)))))
                out.append(row)
            elif fam == "intervals" and scope != "bi":
                out.append([sorted(map(str, (self.index_in(self.bis, x) for x in getattr(obj, m)(arg)))) for m in ("byte_intervals_on", "byte_intervals_at")])
            elif fam == "sections" and scope in ("mod", "ir"):
                out.append([sorted(map(str, (self.index_in(self.secs, x) for x in getattr(obj, m)(arg)))) for m in ("sections_on", "sections_at")])
            elif fam == "symexpr":
                out.append(sorted(str((self.index_in(self.bis, t[0]), t[1])) for t in obj.symbolic_expressions_at(arg)))
            else:
                out.append(None)
        return out


def _pick(seq, i, n):
    if i >= len(seq):
        return i % n
    v = seq[i]
    return None if v is None or v < 0 else v % n
