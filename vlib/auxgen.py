"""Hypothesis strategies for AuxData (type tree, value) pairs — generator G-AUX.

A case is {"t": type tree as nested lists [name, [subtrees]], "v": jv}
(the JSON value model of vlib.auxref)."""

from hypothesis import strategies as st

from . import auxref

INT_NAMES = list(auxref.INT_TYPES)
LEAVES = auxref.LEAVES

# UUIDs 1..8 are the nodes of the small IR every codec case is decoded against
ATTACHED = ["%032x" % i for i in range(1, 9)]

SPECIAL_STRINGS = [
    "",
    "a",
    "é",
    "\x00",
    "a<b>,c",
    "\U0001d11e",
    "日本語",
    "ß\x00z",
    "naïve café",
    "߿ࠀ￿\U00010000",
    "x" * 33,
    # characters that text layers like to "help" with: byte order mark (first,
    # alone, inside), line ends, other whitespace at the ends, control characters
    "\ufeff",
    "\ufeffabc",
    "a\ufeffb",
    "\ufffe",
    "\r\n",
    "a\r\nb\n",
    " lead",
    "trail \t",
    "\x1a\x7f\x85\u2028",
    "e\u0301",  # combining sequence: must not be normalised to the precomposed form
    "\u00e9" + "e\u0301",
    "\ud7ff\ue000",  # the neighbours of the surrogate range
]

SPECIAL_DOUBLES = [
    "0000000000000000",  # +0
    "8000000000000000",  # -0
    "7ff0000000000000",  # +inf
    "fff0000000000000",  # -inf
    "7ff8000000000000",  # nan
    "0000000000000001",  # min subnormal
    "000fffffffffffff",  # max subnormal
    "0010000000000000",  # min normal
    "7fefffffffffffff",  # max double
    "3ff0000000000000",  # 1.0
    "bff8000000000000",  # -1.5
    "3fb999999999999a",  # 0.1
]

SPECIAL_FLOATS = [
    "0000000000000000",
    "8000000000000000",
    "7ff0000000000000",
    "fff0000000000000",
    "7ff8000000000000",
    "3ff0000000000000",
    "3fb999999999999a",  # 0.1 (not float32 representable)
    "36a0000000000000",  # 2^-149 min float32 subnormal
    "3690000000000000",  # 2^-150: tie -> rounds to 0
    "3690000000000001",  # just above tie -> min subnormal
    "380fffffc0000000",  # max float32 subnormal
    "3810000000000000",  # min float32 normal
    "47efffffe0000000",  # FLT_MAX
    "47efffffefffffff",  # rounds to FLT_MAX
    "3ff0000010000000",  # tie to even (down)
    "3ff0000030000000",  # tie to even (up)
    "c7efffffe0000000",
]


def _int_value(draw, name):
    lo, hi = auxref.int_range(name)
    choice = draw(st.integers(0, 9))
    if choice < 5:
        cands = [v for v in (lo, lo + 1, -1, 0, 1, hi - 1, hi, 127, 128, 255, 256, -128, -129) if lo <= v <= hi]
        return draw(st.sampled_from(cands))
    if choice < 8:
        return draw(st.integers(max(lo, -300), min(hi, 300)))
    return draw(st.integers(lo, hi))


_text = st.text(st.characters(blacklist_categories=("Cs",)), max_size=40)
_uuid_foreign = st.integers(0, (1 << 128) - 1).map(lambda i: "%032x" % i)
_uuid = st.one_of(st.sampled_from(ATTACHED), st.sampled_from(ATTACHED), _uuid_foreign,
                  st.sampled_from(["%032x" % 0, "f" * 32, "%032x" % 9]))


def _double_bits(draw, allow_nan):
    c = draw(st.integers(0, 9))
    if c < 4:
        b = draw(st.sampled_from(SPECIAL_DOUBLES))
    elif c < 8:
        b = auxref.float_to_bits(draw(st.floats(allow_nan=True, allow_infinity=True)))
    else:
        b = "%016x" % draw(st.integers(0, (1 << 64) - 1))
    if not allow_nan and auxref.is_nan_bits64(int(b, 16)):
        b = "3ff0000000000000"
    return b


def _float_bits(draw, allow_nan):
    c = draw(st.integers(0, 9))
    if c < 4:
        b = draw(st.sampled_from(SPECIAL_FLOATS))
    elif c < 7:
        b = auxref.float_to_bits(draw(st.floats(width=32, allow_nan=True, allow_infinity=True)))
    else:
        b = auxref.float_to_bits(
            draw(st.floats(min_value=-3.4028234e38, max_value=3.4028234e38, allow_nan=False))
        )
    if auxref.f64_to_f32_bits(int(b, 16)) is None:
        b = "47efffffe0000000"
    if not allow_nan and auxref.is_nan_bits64(int(b, 16)):
        b = "3ff0000000000000"
    return b


def eqkey(tree, jv):
    """Key under which two values of this type decode to *equal* Python
    values (used to keep set elements / mapping keys distinct)."""
    name, subs = tree
    if name == "double":
        return auxref.bits_to_float(jv["f"])
    if name == "float":
        b32 = auxref.f64_to_f32_bits(int(jv["f"], 16))
        return auxref.bits_to_float("%016x" % auxref.f32_bits_to_f64_bits(b32))
    if name == "UUID":
        return jv["u"]
    if name == "Offset":
        return (jv["o"], jv["d"])
    if name == "tuple":
        return tuple(eqkey(s, x) for s, x in zip(subs, jv))
    if name == "sequence":
        return tuple(eqkey(subs[0], x) for x in jv)
    if name == "set":
        return frozenset(eqkey(subs[0], x) for x in jv)
    if name == "variant":
        return ("variant", jv["i"], eqkey(subs[jv["i"]], jv["v"]))
    if name == "bool":
        return bool(jv)
    return jv


def draw_type(draw, depth, hashable=False, leaves=LEAVES, containers=auxref.CONTAINERS,
              max_tuple=6, variant_arities=(1, 2, 2, 3, 4)):
    if depth <= 0 or draw(st.integers(0, 9)) < 3:
        return [draw(st.sampled_from(leaves)), []]
    if hashable:
        # set elements / mapping keys: every type with a hashable Python form
        # (tuples most often, as in the sanctioned schemas; no mappings)
        options = [k for k in ("tuple", "tuple", "tuple", "sequence", "set", "variant") if k in containers]
        if not options:
            return [draw(st.sampled_from(leaves)), []]
        kind = draw(st.sampled_from(options))
    else:
        kind = draw(st.sampled_from(containers))
    if kind == "sequence":
        return ["sequence", [draw_type(draw, depth - 1, hashable, leaves, containers, max_tuple, variant_arities)]]
    if kind == "set":
        return ["set", [draw_type(draw, depth - 1, True, leaves, containers, max_tuple, variant_arities)]]
    if kind == "mapping":
        return [
            "mapping",
            [
                draw_type(draw, depth - 1, True, leaves, containers, max_tuple, variant_arities),
                draw_type(draw, depth - 1, False, leaves, containers, max_tuple, variant_arities),
            ],
        ]
    if kind == "tuple":
        n = draw(st.sampled_from([1, 2, 2, 3, 3, 4, max_tuple]))
        return ["tuple", [draw_type(draw, depth - 1, hashable, leaves, containers, max_tuple, variant_arities) for _ in range(n)]]
    n = draw(st.sampled_from(list(variant_arities)))
    return ["variant", [draw_type(draw, depth - 1, hashable, leaves, containers, max_tuple, variant_arities) for _ in range(n)]]


def draw_value(draw, tree, in_key=False, max_len=5):
    name, subs = tree
    if name in auxref.INT_TYPES:
        return _int_value(draw, name)
    if name == "bool":
        return draw(st.booleans())
    if name == "double":
        return {"f": _double_bits(draw, not in_key)}
    if name == "float":
        return {"f": _float_bits(draw, not in_key)}
    if name == "string":
        if draw(st.integers(0, 9)) < 4:
            return draw(st.sampled_from(SPECIAL_STRINGS))
        return draw(_text)
    if name == "UUID":
        return {"u": draw(_uuid)}
    if name == "Offset":
        return {"o": draw(_uuid), "d": draw(st.sampled_from([0, 1, 7, (1 << 64) - 1, 1 << 63, 255, 256]))}
    if name == "sequence":
        n = draw(st.sampled_from([0, 1, 1, 2, 2, 3, max_len]))
        return [draw_value(draw, subs[0], in_key, max_len) for _ in range(n)]
    if name == "set":
        n = draw(st.sampled_from([0, 1, 1, 2, 2, 3, max_len]))
        out, seen = [], set()
        for _ in range(n):
            x = draw_value(draw, subs[0], True, max_len)
            k = eqkey(_tt(subs[0]), x)
            if k not in seen:
                seen.add(k)
                out.append(x)
        return out
    if name == "mapping":
        n = draw(st.sampled_from([0, 1, 1, 2, 2, 3, max_len]))
        out, seen = [], set()
        for _ in range(n):
            k = draw_value(draw, subs[0], True, max_len)
            kk = eqkey(_tt(subs[0]), k)
            if kk not in seen:
                seen.add(kk)
                out.append([k, draw_value(draw, subs[1], in_key, max_len)])
        return out
    if name == "tuple":
        return [draw_value(draw, s, in_key, max_len) for s in subs]
    if name == "variant":
        i = draw(st.integers(0, len(subs) - 1))
        return {"i": i, "v": draw_value(draw, subs[i], in_key, max_len)}
    raise ValueError(name)


def _tt(t):
    """nested lists -> nested tuples (name, [subs])"""
    return (t[0], [_tt(x) for x in t[1]])


as_tree = _tt


@st.composite
def typed_values(draw, max_depth=4, leaves=LEAVES, containers=auxref.CONTAINERS, max_tuple=6,
                 variant_arities=(1, 2, 2, 3, 4)):
    depth = draw(st.sampled_from([0, 1, 1, 2, 2, 3, max_depth]))
    t = draw_type(draw, depth, False, leaves, containers, max_tuple, variant_arities)
    v = draw_value(draw, t)
    return {"t": t, "v": v}


class InvalidCase(Exception):
    """The (shrunk) case is not in the generator's domain."""


def validate(tree, jv, in_key=False):
    """Raise InvalidCase unless jv is a value of type tree inside the domain."""
    name, subs = tree
    try:
        if name in auxref.INT_TYPES:
            lo, hi = auxref.int_range(name)
            ok = isinstance(jv, int) and not isinstance(jv, bool) and lo <= jv <= hi and not subs
        elif name == "bool":
            ok = isinstance(jv, bool) and not subs
        elif name in ("float", "double"):
            b = int(jv["f"], 16)
            ok = len(jv["f"]) == 16 and not subs
            if name == "float":
                ok = ok and auxref.f64_to_f32_bits(b) is not None
            if in_key:
                ok = ok and not auxref.is_nan_bits64(b)
        elif name == "string":
            ok = isinstance(jv, str) and not subs
            jv.encode("utf-8")
        elif name == "UUID":
            ok = len(jv["u"]) == 32 and int(jv["u"], 16) >= 0 and not subs
        elif name == "Offset":
            ok = len(jv["o"]) == 32 and int(jv["o"], 16) >= 0 and 0 <= jv["d"] < 1 << 64 and not subs
        elif name == "sequence":
            ok = len(subs) == 1 and isinstance(jv, list)
            for x in jv:
                validate(subs[0], x, in_key)
        elif name == "set":
            ok = len(subs) == 1 and isinstance(jv, list) and hashable_type(subs[0])
            keys = set()
            for x in jv:
                validate(subs[0], x, True)
                keys.add(eqkey(subs[0], x))
            ok = ok and len(keys) == len(jv)
        elif name == "mapping":
            ok = len(subs) == 2 and isinstance(jv, list) and hashable_type(subs[0])
            keys = set()
            for k, v in jv:
                validate(subs[0], k, True)
                validate(subs[1], v, in_key)
                keys.add(eqkey(subs[0], k))
            ok = ok and len(keys) == len(jv)
        elif name == "tuple":
            ok = len(subs) >= 1 and isinstance(jv, list) and len(jv) == len(subs)
            if ok:
                for s, x in zip(subs, jv):
                    validate(s, x, in_key)
        elif name == "variant":
            ok = len(subs) >= 1 and isinstance(jv["i"], int) and 0 <= jv["i"] < len(subs)
            if ok:
                validate(subs[jv["i"]], jv["v"], in_key)
        else:
            ok = False
    except InvalidCase:
        raise
    except Exception as e:
        raise InvalidCase(repr(e))
    if not ok:
        raise InvalidCase("%r is not a %s" % (jv, name))


def hashable_type(tree):
    """may this type be a set element / mapping key?  Every type with a hashable
    Python form: leaves, and tuples, sequences (as tuples), sets (as frozensets)
    and variants of such types - not mappings (Python has no hashable dict)."""
    name, subs = tree
    if name in ("tuple", "sequence", "set", "variant"):
        return all(hashable_type(s) for s in subs)
    return name in LEAVES


def depth(tree):
    return 1 + max([depth(s) for s in tree[1]] or [0])


def interesting(tree, jv):
    """C07's non-triviality: a non-ASCII string, a boundary integer or a node
    leaf somewhere in the value."""
    name, subs = tree
    if name in auxref.INT_TYPES:
        lo, hi = auxref.int_range(name)
        return jv in (lo, hi)
    if name == "string":
        return any(ord(c) > 127 for c in jv)
    if name == "UUID":
        return jv["u"] in ATTACHED
    if name == "Offset":
        return jv["o"] in ATTACHED
    if name in ("sequence", "set"):
        return any(interesting(subs[0], x) for x in jv)
    if name == "mapping":
        return any(interesting(subs[0], k) or interesting(subs[1], v) for k, v in jv)
    if name == "tuple":
        return any(interesting(s, x) for s, x in zip(subs, jv))
    if name == "variant":
        return interesting(subs[jv["i"]], jv["v"])
    return False
