"""Observation of a live IR through its *public* attributes only, as a
canonical JSON-like tree keyed by UUID (hex), plus a structural differ.

Nodes are discovered by containment iteration (ir.modules -> sections /
proxies / symbols -> byte_intervals -> blocks).  Sets are reported sorted,
ir.modules in list order.  AuxData values are canonicalised through the
vlib.auxref value model (sets / mappings sorted, float32 rounded, NaNs
unified, node leaves by UUID).
"""

import enum
import json

from . import auxgen, auxref, tngrammar


def enum_repr(x):
    if isinstance(x, enum.Enum):
        return ["E", type(x).__name__, x.value]
    return ["RAW", type(x).__name__, x if isinstance(x, (int, str, bool, type(None))) else repr(x)]


def hexof(node):
    return None if node is None else node.uuid.hex


def label_repr(label):
    if label is None:
        return None
    return [enum_repr(label.type), _boolish(label.conditional), _boolish(label.direct)]


def _boolish(v):
    # bool and int 0/1 compare equal in gtirb's own label equality
    return bool(v) if isinstance(v, (bool, int)) else ["RAW", repr(v)]


def canon_jv(tree, jv):
    """Order-insensitive, rounding-insensitive canonical form of a jv value."""
    name, subs = tree
    if name == "double":
        b = int(jv["f"], 16)
        return {"f": "nan" if auxref.is_nan_bits64(b) else "%016x" % b}
    if name == "float":
        b = int(jv["f"], 16)
        if auxref.is_nan_bits64(b):
            return {"f": "nan"}
        b32 = auxref.f64_to_f32_bits(b)
        return {"f": "%08x" % b32 if b32 is not None else "overflow"}
    if name == "sequence":
        return [canon_jv(subs[0], x) for x in jv]
    if name == "set":
        return sorted((canon_jv(subs[0], x) for x in jv), key=_k)
    if name == "mapping":
        return sorted(([canon_jv(subs[0], k), canon_jv(subs[1], v)] for k, v in jv), key=_k)
    if name == "tuple":
        return [canon_jv(s, x) for s, x in zip(subs, jv)]
    if name == "variant":
        return {"i": jv["i"], "v": canon_jv(subs[jv["i"]], jv["v"])}
    return jv


def _k(x):
    return json.dumps(x, sort_keys=True)


def aux_snapshot(holder, values=True):
    out = {}
    for key, ad in holder.aux_data.items():
        entry = {"type": ad.type_name}
        if values:
            try:
                tree = tngrammar.parse(ad.type_name)
            except tngrammar.Reject:
                tree = None
            data = ad.data
            if tree is not None and auxref.all_known(tree) and auxref.well_formed(tree) and not isinstance(data, bytes):
                try:
                    entry["value"] = canon_jv(tree, auxref.from_python(tree, data))
                except Exception as e:  # value does not fit its type name
                    entry["value"] = ["UNREPRESENTABLE", repr(e), repr(data)[:200]]
            elif isinstance(data, (bytes, bytearray)):
                entry["value"] = ["BYTES", bytes(data).hex()]
            else:
                entry["value"] = ["OPAQUE", repr(data)[:200]]
        out[key] = entry
    return out


def expr_repr(g, x):
    attrs = []
    for a in x.attributes:
        if isinstance(a, g.SymbolicExpression.Attribute):
            attrs.append(["E", a.value])
        elif isinstance(a, bool) or not isinstance(a, int):
            attrs.append(["RAW", repr(a)])
        else:
            attrs.append(["I", a])
    attrs.sort(key=_k)
    if isinstance(x, g.SymAddrConst):
        return {"kind": "const", "offset": x.offset, "symbol": hexof(x.symbol), "attrs": attrs}
    if isinstance(x, g.SymAddrAddr):
        return {
            "kind": "addr",
            "offset": x.offset,
            "scale": x.scale,
            "symbol1": hexof(x.symbol1),
            "symbol2": hexof(x.symbol2),
            "attrs": attrs,
        }
    return {"kind": "RAW:" + type(x).__name__}


def snapshot(g, ir, aux_values=True):
    nodes = {}
    dups = []

    def put(node, d):
        h = node.uuid.hex
        if h in nodes:
            dups.append(h)
        nodes[h] = d

    put(
        ir,
        {
            "kind": "IR",
            "version": ir.version,
            "modules": [m.uuid.hex for m in ir.modules],
            "aux": aux_snapshot(ir, aux_values),
        },
    )
    for m in ir.modules:
        put(
            m,
            {
                "kind": type(m).__name__,
                "parent": hexof(m.ir),
                "name": m.name,
                "binary_path": m.binary_path,
                "isa": enum_repr(m.isa),
                "file_format": enum_repr(m.file_format),
                "byte_order": enum_repr(m.byte_order),
                "preferred_addr": m.preferred_addr,
                "rebase_delta": m.rebase_delta,
                "entry_point": hexof(m.entry_point),
                "sections": sorted(s.uuid.hex for s in m.sections),
                "proxies": sorted(p.uuid.hex for p in m.proxies),
                "symbols": sorted(s.uuid.hex for s in m.symbols),
                "aux": aux_snapshot(m, aux_values),
            },
        )
        for p in m.proxies:
            put(p, {"kind": type(p).__name__, "parent": hexof(p.module)})
        for s in m.sections:
            put(
                s,
                {
                    "kind": type(s).__name__,
                    "parent": hexof(s.module),
                    "name": s.name,
                    "flags": sorted((enum_repr(f) for f in s.flags), key=_k),
                    "intervals": sorted(bi.uuid.hex for bi in s.byte_intervals),
                },
            )
            for bi in s.byte_intervals:
                put(
                    bi,
                    {
                        "kind": type(bi).__name__,
                        "parent": hexof(bi.section),
                        "address": bi.address,
                        "size": bi.size,
                        "initialized_size": bi.initialized_size,
                        "contents": bytes(bi.contents).hex(),
                        "blocks": sorted(b.uuid.hex for b in bi.blocks),
                        "exprs": {str(off): expr_repr(g, x) for off, x in bi.symbolic_expressions.items()},
                    },
                )
                for b in bi.blocks:
                    d = {
                        "kind": type(b).__name__,
                        "parent": hexof(b.byte_interval),
                        "offset": b.offset,
                        "size": b.size,
                    }
                    if isinstance(b, g.CodeBlock):
                        d["decode_mode"] = enum_repr(b.decode_mode)
                    put(b, d)
        for sy in m.symbols:
            put(
                sy,
                {
                    "kind": type(sy).__name__,
                    "parent": hexof(sy.module),
                    "name": sy.name,
                    "at_end": sy.at_end,
                    "value": sy.value,
                    "referent": hexof(sy.referent),
                },
            )
    edges = sorted(
        ([hexof(e.source), hexof(e.target), label_repr(e.label)] for e in ir.cfg), key=_k
    )
    return {"ir": ir.uuid.hex, "nodes": nodes, "edges": edges, "duplicate_uuids": sorted(dups)}


def diff(a, b, path="$"):
    """First difference between two JSON-like trees, or None."""
    if type(a) is not type(b):
        # bool vs int matters; int vs int fine
        return "%s: %r (%s) != %r (%s)" % (path, _short(a), type(a).__name__, _short(b), type(b).__name__)
    if isinstance(a, dict):
        for k in sorted(set(a) | set(b), key=str):
            if k not in a:
                return "%s: key %r only on the right (%s)" % (path, k, _short(b[k]))
            if k not in b:
                return "%s: key %r only on the left (%s)" % (path, k, _short(a[k]))
            d = diff(a[k], b[k], "%s.%s" % (path, k))
            if d:
                return d
        return None
    if isinstance(a, list):
        if len(a) != len(b):
            return "%s: length %d != %d (%s vs %s)" % (path, len(a), len(b), _short(a), _short(b))
        for i, (x, y) in enumerate(zip(a, b)):
            d = diff(x, y, "%s[%d]" % (path, i))
            if d:
                return d
        return None
    if a != b:
        return "%s: %r != %r" % (path, _short(a), _short(b))
    return None


def _short(x):
    s = repr(x)
    return s if len(s) <= 160 else s[:160] + "..."
