"""Coverage-guided byte fuzzing of the loader (property C17, thorough tier).

    python -m vlib.fuzz_c17 <workdir> <runs> <seed> [python|upb]

Runs atheris/libFuzzer in-process over IR.load_protobuf_file with gtirb's
Python code instrumented, a seed corpus of valid files written by the caller
into <workdir>/corpus, and the C17 oracle (checks.c17_loader.Judge: reject, or
coherent IR equal to what the reference reader makes of the file) *inside* the
target.  Failures do not stop the campaign: they are appended to
<workdir>/failures.jsonl (bucket, input hex, detail) and the campaign goes on;
<workdir>/stats.json is rewritten every 2000 executions (atheris exits the
process without running atexit handlers).
"""

import json
import os
import sys


def main(argv):
    workdir, runs, seed = argv[1], int(argv[2]), int(argv[3])
    sys.path.insert(0, os.path.dirname(os.path.dirname(os.path.abspath(__file__))))
    from vlib import bootstrap, build

    bootstrap.ensure(extra=(("atheris", "atheris"),))
    import atheris

    dest = build.build()
    sys.path.insert(0, dest)
    with atheris.instrument_imports(include=["gtirb"]):
        import gtirb  # noqa
    build._ACTIVE = gtirb
    from vlib import pbt
    from checks import c17_loader

    stats = {"execs": 0, "accepted": 0, "rejected:gtirb": 0, "rejected:protobuf": 0, "failures": 0}
    fail_path = os.path.join(workdir, "failures.jsonl")
    seen = set()

    def flush():
        tmp = os.path.join(workdir, "stats.json.tmp")
        with open(tmp, "w") as f:
            json.dump(stats, f)
        os.replace(tmp, os.path.join(workdir, "stats.json"))

    def one(data):
        res = pbt.CaseResult()
        J = c17_loader.Judge(gtirb, res)
        expect = None
        if data[:5] != b"GTIRB" or len(data) < 8 or data[7] != c17_loader.refmsg.proto_version():
            expect = "ValueError"
        try:
            J.judge(bytes(data), "fuzz input", expect=expect)
        except pbt.CaseTimeout:
            res.fail("C17:hang", "fuzz input did not finish")
        stats["execs"] += 1
        for k in ("accepted", "rejected:gtirb", "rejected:protobuf"):
            stats[k] += res.counts.get(k, 0)
        for bucket, detail in res.failures:
            stats["failures"] += 1
            if bucket not in seen or len(data) < 200:
                seen.add(bucket)
                with open(fail_path, "a") as f:
                    f.write(json.dumps({"bucket": bucket, "hex": bytes(data).hex(), "detail": detail[:500]}) + "\n")
        if stats["execs"] % 2000 == 0:
            flush()

    import signal

    signal.signal(signal.SIGALRM, pbt._on_alarm)
    flush()
    args = [sys.argv[0], "-runs=%d" % runs, "-seed=%d" % (seed or 1), "-max_len=4096", "-timeout=60",
            "-print_final_stats=0", os.path.join(workdir, "corpus")]
    atheris.Setup(args, one)
    try:
        atheris.Fuzz()
    finally:
        flush()


if __name__ == "__main__":
    main(sys.argv)
