"""Offline dependency bootstrap.

/venv already carries everything gtirb needs plus hypothesis.  After a fresh
restore something may be missing; then it is installed from the offline
wheelhouse into /verif/.deps (never fetched from a network)."""

import importlib
import os
import subprocess
import sys

VERIF_ROOT = os.path.dirname(os.path.dirname(os.path.abspath(__file__)))
# one directory per interpreter version: the wheels are version specific
DEPS = os.path.join(VERIF_ROOT, ".deps", "cp%d%d" % sys.version_info[:2])
WHEELS = "/opt/veriftools/wheels"


def _have(name):
    try:
        importlib.import_module(name)
        return True
    except Exception:
        return False


def _install(pkg):
    os.makedirs(DEPS, exist_ok=True)
    subprocess.run(
        [sys.executable, "-m", "pip", "install", "--no-index", "--find-links", WHEELS,
         "--target", DEPS, "--quiet", pkg],
        check=True,
        env=dict(os.environ, PIP_NO_INDEX="1"),
    )
    importlib.invalidate_caches()


def ensure(extra=()):
    # after everything the interpreter already has: never shadow a working
    # installation
    if os.path.isdir(DEPS) and DEPS not in sys.path:
        sys.path.append(DEPS)
    for mod, pkg in (("hypothesis", "hypothesis"),) + tuple(extra):
        if not _have(mod):
            _install(pkg)
            if DEPS not in sys.path:
                sys.path.append(DEPS)
            if not _have(mod):
                raise RuntimeError("cannot provide %s offline" % pkg)


def setup():
    ensure()
    from . import build

    dest = build.build()
    print("built", dest)
    for base, verdict in build.selfcheck():
        print("  protoc_lite vs wheel descriptor %-20s %s" % (base, verdict))
    try:
        from . import javadriver

        javadriver.compile_driver()
        print("java driver compiled")
    except ImportError:
        pass
    return 0


if __name__ == "__main__":
    if "--setup" in sys.argv:
        sys.exit(setup())
    ensure()
