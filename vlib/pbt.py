"""Generated-case engine shared by all checks.

A *case* is a JSON-serialisable value.  A check supplies

    strategy   : a Hypothesis strategy producing cases
    run_case   : case -> CaseResult   (interprets the case against the real
                 code and an oracle; never raises for an oracle mismatch)

`run_hypothesis` draws cases (generate phase only: failures are *collected*,
bucketed by oracle id, and generation continues, so one shallow defect cannot
hide what lies behind it), then minimises one case per bucket with the
delta-debugging shrinker below.  Nothing here calls an RNG or the clock for
anything but reporting.
"""

import hashlib
import json
import os
import sys
import time
import traceback


class CaseResult:
    __slots__ = ("failures", "nontrivial", "tags", "evals", "sub_nontrivial", "counts", "sample")

    def __init__(self):
        self.failures = []  # [(bucket, detail)]
        self.nontrivial = False
        self.tags = []
        self.evals = 1  # inputs judged inside this case (enumerating cases set it)
        self.sub_nontrivial = 0  # distinct non-trivial inputs enumerated inside this case
        self.counts = {}  # bulk counters
        self.sample = None  # explicit sample (enumerating cases: a few of the inputs they judged)

    def fail(self, bucket, detail=""):
        detail = str(detail)
        if len(detail) > 2000:
            detail = detail[:2000] + "...[truncated]"
        self.failures.append((bucket, detail))

    def tag(self, *names):
        self.tags.extend(names)


def canon(case):
    return json.dumps(case, sort_keys=True, separators=(",", ":"), default=_json_default)


def _json_default(o):
    if isinstance(o, (bytes, bytearray)):
        return {"$hex": bytes(o).hex()}
    if isinstance(o, (set, frozenset)):
        return sorted(o)
    if isinstance(o, tuple):
        return list(o)
    raise TypeError("not JSON serialisable: %r" % (o,))


def case_hash(case):
    return hashlib.sha1(canon(case).encode()).hexdigest()[:16]


def under_test_frame(tb):
    """Innermost traceback frame that lies inside the built gtirb package."""
    found = None
    for fs in traceback.extract_tb(tb):
        fn = fs.filename.replace("\\", "/")
        if "/.build/pkg-" in fn and "/gtirb/" in fn:
            found = "%s:%s" % (os.path.basename(fn), fs.name)
    return found


def exception_bucket(prefix, exc):
    """Bucket id for an exception escaping while a case is interpreted."""
    where = under_test_frame(exc.__traceback__)
    if where is None:
        last = traceback.extract_tb(exc.__traceback__)[-1:]
        where = "harness:" + (
            "%s:%s" % (os.path.basename(last[0].filename), last[0].name) if last else "?"
        )
    return "%s:exception:%s@%s" % (prefix, type(exc).__name__, where)


class CaseTimeout(BaseException):
    """A single case ran longer than CASE_LIMIT_S (thousands of times the
    normal cost of a case): the code under test is looping."""


CASE_LIMIT_S = float(os.environ.get("VERIF_CASE_LIMIT_S", "20"))
_HANGS = [0]


def _on_alarm(signum, frame):
    raise CaseTimeout()


def safe_run(run_case, case, prefix):
    """run_case, with any escaping exception turned into a failure bucket.
    A hang breaker (SIGALRM, generous limit) turns a non-terminating case into
    the bucket '<prefix>:hang' instead of stalling the whole shard."""
    import signal

    old = signal.signal(signal.SIGALRM, _on_alarm)
    # once the code under test has been seen to hang, later cases (and shrink
    # candidates) get a much shorter leash: normal cases finish in milliseconds
    limit = CASE_LIMIT_S if _HANGS[0] == 0 else (5.0 if _HANGS[0] < 3 else 2.0)
    signal.setitimer(signal.ITIMER_REAL, limit)
    try:
        res = run_case(case)
    except CaseTimeout:
        _HANGS[0] += 1
        res = CaseResult()
        res.fail("%s:hang" % prefix, "case did not finish within %.0fs" % limit)
    except (KeyboardInterrupt, SystemExit, MemoryError):
        raise
    except BaseException as e:  # noqa
        res = CaseResult()
        if type(e).__name__ == "Unbuildable":
            # no Python value of the case's type can be handed to the API on
            # this tree: a counted, trivial case
            res.tag("skipped:unbuildable-value")
            return res
        res.fail(
            exception_bucket(prefix, e),
            "".join(traceback.format_exception(type(e), e, e.__traceback__))[-1800:],
        )
    finally:
        signal.setitimer(signal.ITIMER_REAL, 0)
        signal.signal(signal.SIGALRM, old)
    return res


# --------------------------------------------------------------------------
# shrinking: generic delta debugging over JSON values
# --------------------------------------------------------------------------


def _candidates(value):
    """Yield strictly 'smaller' variants of a JSON value (shape preserving:
    dict keys are kept, lists lose elements, scalars move towards zero)."""
    if isinstance(value, list):
        n = len(value)
        if n:
            chunk = n
            while chunk >= 1:
                for start in range(0, n, chunk):
                    yield value[:start] + value[start + chunk :]
                if chunk == 1:
                    break
                chunk //= 2
        for i, item in enumerate(value):
            for sub in _candidates(item):
                yield value[:i] + [sub] + value[i + 1 :]
    elif isinstance(value, dict):
        for key in sorted(value):
            for sub in _candidates(value[key]):
                new = dict(value)
                new[key] = sub
                yield new
    elif isinstance(value, bool):
        if value:
            yield False
    elif isinstance(value, int):
        if value != 0:
            yield 0
            if abs(value) > 1:
                yield value // 2 if value > 0 else -((-value) // 2)
                yield value - 1 if value > 0 else value + 1
    elif isinstance(value, float):
        if value != 0.0:
            yield 0.0
    elif isinstance(value, str):
        if value:
            yield ""
            if len(value) > 1:
                yield value[: len(value) // 2]
                yield value[1:]
                yield value[:-1]


def _size(value):
    return len(canon(value))


def shrink(case, still_fails, max_evals=400):
    """Greedy descent over _candidates; returns (smaller case, evaluations)."""
    evals = 0
    best = case
    improved = True
    while improved and evals < max_evals:
        improved = False
        best_size = _size(best)
        for cand in _candidates(best):
            if evals >= max_evals:
                break
            if _size(cand) >= best_size:
                continue
            evals += 1
            ok = False
            try:
                ok = still_fails(cand)
            except (KeyboardInterrupt, SystemExit, MemoryError):
                raise
            except BaseException:
                ok = False
            if ok:
                best = cand
                improved = True
                break
    return best, evals


# --------------------------------------------------------------------------


MAX_SHRUNK_BUCKETS = 6
# wall budget for *minimisation* only (never for a verdict): after it, buckets
# are reported with the smallest failing case seen
SHRINK_WALL_S = float(os.environ.get("VERIF_SHRINK_WALL_S", "90"))


def new_job_result():
    return {
        "evaluations": 0,
        "nontrivial_hashes": [],
        "samples": [],
        "counters": {},
        "failures": [],  # [{bucket, case, detail, shrink_evals}]
        "errors": [],  # harness / infrastructure errors (exit 2)
        "wall_s": 0.0,
    }


def bump(counters, key, n=1):
    counters[key] = counters.get(key, 0) + n


class Collector:
    """Accumulates per-case results into a job result."""

    def __init__(self, prefix, max_samples=4, sample_limit=1500):
        self.prefix = prefix
        self.result = new_job_result()
        self._hashes = set()
        self._sub_seen = set()
        self._buckets = {}  # bucket -> (size, case, detail)
        self._bucket_hits = {}
        self.max_samples = max_samples
        self.sample_limit = sample_limit

    def record(self, case, res):
        r = self.result
        r["evaluations"] += res.evals
        for t in res.tags:
            bump(r["counters"], t)
        for k, v in res.counts.items():
            bump(r["counters"], k, v)
        if res.sample is not None and len(r["samples"]) < self.max_samples and r["evaluations"] % 3 == 0:
            r["samples"].append(res.sample)
        if res.sub_nontrivial:
            h = case_hash(case)
            if h not in self._sub_seen:
                self._sub_seen.add(h)
                r["nontrivial_count"] = r.get("nontrivial_count", 0) + res.sub_nontrivial
        if res.nontrivial:
            h = case_hash(case)
            if h not in self._hashes:
                self._hashes.add(h)
                # samples at spread-out positions (1st, 7th, 50th, ... distinct
                # non-trivial case), not just Hypothesis' simplest first draws
                if len(self._hashes) in (1, 7, 50, 300, 2000, 12000) and len(r["samples"]) < self.max_samples:
                    text = canon(case)
                    if len(text) <= self.sample_limit:
                        r["samples"].append(json.loads(text))
                    elif not r["samples"]:
                        r["samples"].append({"truncated_case": text[: self.sample_limit]})
        for bucket, detail in res.failures:
            self._bucket_hits[bucket] = self._bucket_hits.get(bucket, 0) + 1
            size = _size(case)
            cur = self._buckets.get(bucket)
            if cur is None or size < cur[0]:
                self._buckets[bucket] = (size, json.loads(canon(case)), detail)

    def finish(self, run_case, max_shrink_evals):
        r = self.result
        r["nontrivial_hashes"] = sorted(self._hashes)
        shrunk_buckets = 0
        t_shrink0 = time.time()
        for bucket in sorted(self._buckets):
            size, case, detail = self._buckets[bucket]

            def still_fails(cand, bucket=bucket):
                res = safe_run(run_case, cand, self.prefix)
                return any(b == bucket for b, _ in res.failures)

            budget = 3 if bucket.endswith(":hang") else max_shrink_evals
            if _HANGS[0] >= 3:
                budget = min(budget, 10)  # every candidate may cost a hang-breaker expiry
            if shrunk_buckets >= MAX_SHRUNK_BUCKETS or time.time() - t_shrink0 > SHRINK_WALL_S:
                budget = 0  # reported with the smallest failing case seen
            shrunk_buckets += 1
            small, evals = shrink(case, still_fails, budget) if budget else (case, 0)
            res = safe_run(run_case, small, self.prefix)
            det = [d for b, d in res.failures if b == bucket]
            r["failures"].append(
                {
                    "bucket": bucket,
                    "case": small,
                    "detail": det[0] if det else detail,
                    "hits": self._bucket_hits[bucket],
                    "shrink_evals": evals,
                }
            )
        return r


class _StopGeneration(Exception):
    pass


def run_hypothesis(strategy, run_case, *, prefix, n_examples, seed, max_shrink_evals=300,
                   max_samples=4):
    """Draw n_examples cases from strategy (seeded), interpret each, collect."""
    import hypothesis
    from hypothesis import HealthCheck, Phase, given, settings

    t0 = time.time()
    col = Collector(prefix, max_samples=max_samples)

    @hypothesis.seed(seed)
    @settings(
        max_examples=n_examples,
        database=None,
        deadline=None,
        derandomize=False,
        report_multiple_bugs=False,
        phases=[Phase.generate],
        suppress_health_check=[
            HealthCheck.too_slow,
            HealthCheck.data_too_large,
            HealthCheck.large_base_example,
        ],
    )
    @given(strategy)
    def prop(case):
        if state["stop"]:
            raise _StopGeneration()
        res = safe_run(run_case, case, prefix)
        col.record(case, res)
        if any(b.endswith(":hang") for b, _ in res.failures):
            state["hangs"] += 1
            if state["hangs"] >= 2:
                # every further hang costs CASE_LIMIT_S; the failure is recorded
                state["stop"] = True

    state = {"stop": False, "hangs": 0}
    try:
        prop()
    except _StopGeneration:
        bump(col.result["counters"], "generation_stopped_after_hangs")
    except hypothesis.errors.FailedHealthCheck as e:
        col.result["errors"].append("hypothesis health check: %s" % (e,))
    except hypothesis.errors.HypothesisException as e:
        col.result["errors"].append("hypothesis error: %r" % (e,))
    result = col.finish(run_case, max_shrink_evals)
    result["wall_s"] = time.time() - t0
    return result


def run_cases(cases, run_case, *, prefix, max_shrink_evals=300, max_samples=4):
    """Same collection for an explicit (enumerated) iterable of cases."""
    t0 = time.time()
    col = Collector(prefix, max_samples=max_samples)
    for case in cases:
        col.record(case, safe_run(run_case, case, prefix))
    result = col.finish(run_case, max_shrink_evals)
    result["wall_s"] = time.time() - t0
    return result
