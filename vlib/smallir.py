"""The fixed 8-node IR that AuxData codec cases are decoded against
(UUID(int=1) .. UUID(int=8): IR, module, section, interval, code block, data
block, proxy, symbol)."""

import io
import uuid


def U(i):
    return uuid.UUID(int=i)


def make(gtirb):
    ir = gtirb.IR(uuid=U(1))
    m = gtirb.Module(name="m", uuid=U(2), ir=ir)
    s = gtirb.Section(name=".s", uuid=U(3), module=m)
    bi = gtirb.ByteInterval(uuid=U(4), size=8, contents=b"\x00" * 8, section=s)
    gtirb.CodeBlock(uuid=U(5), size=4, offset=0, byte_interval=bi)
    gtirb.DataBlock(uuid=U(6), size=4, offset=4, byte_interval=bi)
    gtirb.ProxyBlock(uuid=U(7), module=m)
    gtirb.Symbol("sym", uuid=U(8), module=m)
    return ir


def save(ir):
    buf = io.BytesIO()
    ir.save_protobuf_file(buf)
    return buf.getvalue()


def load(gtirb, data):
    return gtirb.IR.load_protobuf_file(io.BytesIO(data))
