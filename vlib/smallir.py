"""The fixed 8-node IR that AuxData codec cases are decoded against
(UUID(int=1) .. UUID(int=8): IR, module, section, interval, code block, data
block, proxy, symbol)."""

import io
import uuid


def U(i):
    return uuid.UUID(int=i)


def make(gtirb):
    ir = gtirb.IR(uuid=U(1))
    m = gtirb.Module(name="m", uuid=U(2), ir=ir)
    s = gtirb.Section(name=".s", uuid=U(3), module=m)
    bi = gtirb.ByteInterval(uuid=U(4), size=8, contents=b"\x00" * 8, section=s)
    gtirb.CodeBlock(uuid=U(5), size=4, offset=0, byte_interval=bi)
    gtirb.DataBlock(uuid=U(6), size=4, offset=4, byte_interval=bi)
    gtirb.ProxyBlock(uuid=U(7), module=m)
    gtirb.Symbol("sym", uuid=U(8), module=m)
    return ir


def save(ir):
    buf = io.BytesIO()
    ir.save_protobuf_file(buf)
    return buf.getvalue()


def load(gtirb, data):
    return gtirb.IR.load_protobuf_file(io.BytesIO(data))


FOREIGN_TABLES = [
    ("sequence<acme_record>", b"\x01" + b"\x00" * 7 + b"zz"),
    ("mapping<string,acme_record>", b"\x01" + b"\x00" * 7 + b"\x01" + b"\x00" * 7 + b"k??"),
    ("set<acme<int8_t>>", b"\x02" + b"\x00" * 7 + b"ab"),
    ("tuple<acme_record,int64_t>", b"\x07" * 9),
    ("variant<acme_record,string>", b"\x00" * 8 + b"!"),
    ("mapping<UUID,sequence<acme_record>>", b"\x00" * 8),
    ("acme_record", b"opaque"),
    ("sequence<int64_t>", b"\x01" + b"\x00" * 7 + b"\x05" + b"\x00" * 7),
    ("mapping<string,sequence<int64_t>>", b"\x00" * 8),
]


def foreign_activity(gtirb, k):
    """Another IR of the same process: a file with tables of partly unknown
    types is loaded, three of its tables are read, and it is saved.  Nothing of
    this may influence any other IR (the AuxData serializer is process wide).
    Returns a list of complaints about the foreign IR itself (unknown tables
    must come back as their bytes)."""
    from gtirb.proto import IR_pb2

    msg = IR_pb2.IR()
    data = save(make(gtirb))
    msg.ParseFromString(data[8:])
    for i, (tname, raw) in enumerate(FOREIGN_TABLES):
        msg.aux_data["f%d" % i].type_name = tname
        msg.aux_data["f%d" % i].data = raw
    ir = load(gtirb, data[:8] + msg.SerializeToString())
    n = len(FOREIGN_TABLES)
    for j in range(3):
        i = (k + 4 * j) % n
        try:
            ir.aux_data["f%d" % i].data
        except Exception:  # noqa
            pass
    try:
        save(ir)
    except Exception:  # noqa
        pass
