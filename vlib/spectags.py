"""Classification of IR specs (what boundary values / reference kinds a
generated spec contains) for evidence counters and non-triviality rules."""

from .spec import U64


def tags(r):
    t = set()
    spec = r.spec
    if len(spec["modules"]) >= 2:
        t.add("modules>=2")
    if not spec["modules"]:
        t.add("modules=0")
    for mi in r.mods:
        m = mi["spec"]
        if m["name"] == "":
            t.add("b:empty-name")
        if any(ord(c) > 127 for c in m["name"] + m["binary_path"]):
            t.add("b:nonascii-name")
        if m["rebase_delta"] < 0:
            t.add("b:negative-int64")
        if m["preferred_addr"] == U64:
            t.add("b:u64-max")
        if r.entry(mi) is not None:
            t.add("ref:entry")
            owner = [k for k, mj in enumerate(r.mods) if any(c is r.entry(mi) for c in mj["code"])]
            here = r.mods.index(mi)
            if owner and owner[0] < here:
                t.add("ref:entry-in-earlier-module")
            elif owner and owner[0] > here:
                t.add("ref:entry-in-later-module")
        if m["aux"]:
            t.add("aux:module")
        for s in m["sections"]:
            if s["name"] == "":
                t.add("b:empty-name")
            if any(ord(c) > 127 for c in s["name"]):
                t.add("b:nonascii-name")
            if "\x00" in s["name"]:
                t.add("b:nul-in-name")
        for bi in mi["intervals"]:
            if bi["address"] == 0:
                t.add("b:address-0")
            if bi["address"] is None:
                t.add("b:address-none")
            if bi["address"] == U64:
                t.add("b:u64-max")
            if not bi["contents"]:
                t.add("b:empty-interval")
            if r.exprs(mi, bi):
                t.add("ref:symexpr")
                for _, e, _, _ in r.exprs(mi, bi):
                    if e["offset"] < 0 or e["scale"] < 0:
                        t.add("b:negative-int64")
                    if any(a not in KNOWN_ATTRS for a in e["attrs"]):
                        t.add("b:unknown-attr")
                    if e["kind"] == "addr":
                        t.add("ref:symaddraddr")
            offs = [b["offset"] for b in bi["blocks"]]
            if len(set(offs)) != len(offs):
                t.add("b:equal-offsets")
            for b in bi["blocks"]:
                if b["size"] == 0:
                    t.add("b:zero-size-block")
                if b["offset"] == U64 or b["size"] == U64:
                    t.add("b:u64-max")
        for sy in mi["symbols"]:
            pay = r.payload(mi, sy)
            if pay is None:
                t.add("sym:none")
            elif pay[0] == "value":
                t.add("sym:value")
                if pay[1] == 0:
                    t.add("b:value-0")
                if pay[1] == U64:
                    t.add("b:u64-max")
            else:
                t.add("ref:referent")
                if "module" not in pay[1] and "kind" not in pay[1]:
                    t.add("ref:proxy-referent")
            if sy["name"] == "":
                t.add("b:empty-name")
            if any(ord(c) > 127 for c in sy["name"]):
                t.add("b:nonascii-name")
            if sy["at_end"]:
                t.add("sym:at_end")
    for s, tg, lab, _ in r.edges():
        t.add("ref:edge")
        if lab is None:
            t.add("b:label-none")
        elif lab[1:] == (False, False) and lab[0] == 0:
            t.add("b:label-all-false")
        if s is tg:
            t.add("edge:self-loop")
    if spec["ir"]["aux"]:
        t.add("aux:ir")
    return t


KNOWN_ATTRS = set()


def init_known():
    from .spec import schema

    KNOWN_ATTRS.update(schema()["sym_attr"])


def nontrivial_c01(t):
    refs = {"ref:referent", "ref:entry", "ref:edge", "ref:symexpr"}
    return ("modules>=2" in t or refs <= t) and any(x.startswith("b:") for x in t)
