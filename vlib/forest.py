"""Ownership-forest engine shared by C03, C04, C10 and C16.

A *world* is a set of harness-owned registries of real gtirb nodes (IRs,
modules, sections, byte intervals, blocks, proxies, symbols) plus a reference
model of the containment forest (child -> parent, module order per IR, symbol
names and payloads).  `apply(op)` interprets one op of a generated program
against both; `check(...)` compares them.  Ops address nodes by index into the
registries (modulo their length) so every op is applicable in every state.

Failure buckets are prefixed by the oracle family:
  cache:   get_by_uuid vs reachability by containment iteration      (C03)
  forest:  both-ends consistency, move semantics, derived accessors,
           frame condition                                           (C04)
  symidx:  symbols_named / references                                (C10)
  refine:  return values / exceptions / contents vs the built-in
           list / set semantics                                      (C16)
"""

import io
import uuid

KINDS = ["ir", "mod", "sec", "bi", "blk", "prx", "sym"]
PARENT_KIND = {"mod": "ir", "sec": "mod", "bi": "sec", "blk": "bi", "prx": "mod", "sym": "mod"}
PARENT_ATTR = {"mod": "ir", "sec": "module", "bi": "section", "blk": "byte_interval", "prx": "module", "sym": "module"}
COLL_ATTR = {"mod": "modules", "sec": "sections", "bi": "byte_intervals", "blk": "blocks", "prx": "proxies", "sym": "symbols"}
CHILD_KINDS = {"ir": ["mod"], "mod": ["sec", "prx", "sym"], "sec": ["bi"], "bi": ["blk"]}
SET_KINDS = ["sec", "bi", "blk", "prx", "sym"]
NAME_POOL = ["", "a", "b", "é"]
DERIVED = {
    "sec": [("ir", "ir")],
    "bi": [("module", "mod"), ("ir", "ir")],
    "blk": [("section", "sec"), ("module", "mod"), ("ir", "ir")],
    "prx": [("ir", "ir")],
    "sym": [("ir", "ir")],
}
INIT_COUNTS = {"ir": 3, "mod": 4, "sec": 4, "bi": 5, "blk": 6, "prx": 3, "sym": 5}


class Skip(Exception):
    """op degenerates to a counted no-op in this state"""


class _Idx:
    """an index object: anything with __index__ is a legal list index"""

    def __init__(self, v):
        self.v = v

    def __index__(self):
        return self.v

    def __repr__(self):
        return "Idx(%d)" % self.v


class Boom(Exception):
    """the fault injected by an operand that fails while it is consumed"""


class World:
    def __init__(self, g, layout=None, record=None):
        self.g = g
        self.objs = {k: [] for k in KINDS}
        self.par = {}  # (kind, idx) -> parent idx | None
        self.order = {}  # ir idx -> [module idx]
        self.uuid = {}  # (kind, idx) -> UUID
        self.sym_name = {}
        self.sym_pay = {}  # idx -> None | ("int", v) | ("blk", idx) | ("prx", idx)
        self.attrs = {}  # frame condition: (kind, idx) -> value of the 'unrelated' attribute
        self.counter = 0
        self.fail = []  # [(bucket, detail)]
        self.tags = record if record is not None else []
        self.noops = 0
        layout = layout or {}
        nil = layout.get("nil")  # [kind index, node index]: that node carries the nil UUID
        for k in KINDS:
            for i in range(INIT_COUNTS[k]):
                if nil and KINDS[nil[0] % len(KINDS)] == k and nil[1] % INIT_COUNTS[k] == i:
                    self.new_node(k, uuid=uuid.UUID(int=0))
                else:
                    self.new_node(k)
        # initial layout through parent= keywords is modelled as setparent ops
        for k in ["mod", "sec", "bi", "blk", "prx", "sym"]:
            for i, p in enumerate(layout.get(k, [])):
                if i < len(self.objs[k]) and p is not None and p >= 0:
                    self.do_setparent(k, i, p % len(self.objs[PARENT_KIND[k]]))

    # ------------------------------------------------------------ registry
    def fresh_uuid(self):
        self.counter += 1
        return uuid.UUID(int=(0xABCD << 64) | self.counter)

    def new_node(self, kind, **kw):
        g = self.g
        u = kw.pop("uuid", None) or self.fresh_uuid()
        idx = len(self.objs[kind])
        if kind == "ir":
            o = g.IR(uuid=u, **kw)
            self.order[idx] = []
        elif kind == "mod":
            o = g.Module(name="m%d" % idx, uuid=u, **kw)
        elif kind == "sec":
            o = g.Section(name="s%d" % idx, uuid=u, **kw)
        elif kind == "bi":
            o = g.ByteInterval(size=idx, uuid=u, **kw)
        elif kind == "blk":
            cls = g.CodeBlock if idx % 2 == 0 else g.DataBlock
            o = cls(size=idx, offset=idx, uuid=u, **kw)
        elif kind == "prx":
            o = g.ProxyBlock(uuid=u, **kw)
        else:
            name = NAME_POOL[idx % len(NAME_POOL)]
            o = g.Symbol(name, uuid=u, **kw)
            self.sym_name[idx] = name
            self.sym_pay[idx] = None
        self.register(kind, o, u)
        return idx

    def register(self, kind, o, u):
        idx = len(self.objs[kind])
        self.objs[kind].append(o)
        self.uuid[(kind, idx)] = u
        if kind != "ir":
            self.par[(kind, idx)] = None
        self.attrs[(kind, idx)] = self.read_attr(kind, o)
        return idx

    def read_attr(self, kind, o):
        if kind == "ir":
            return ("version", o.version)
        if kind in ("mod", "sec"):
            return ("name", o.name)
        if kind == "bi":
            return ("size", o.size, o.address)
        if kind == "blk":
            return ("size", o.size, o.offset)
        if kind == "sym":
            return ("at_end", o.at_end)
        return ()

    def obj(self, kind, idx):
        return self.objs[kind][idx]

    def n(self, kind):
        return len(self.objs[kind])

    def children(self, pkind, pidx, ckind):
        return [i for i in range(self.n(ckind)) if self.par[(ckind, i)] == pidx] if PARENT_KIND[ckind] == pkind else []

    def ir_of(self, kind, idx):
        """model: index of the IR a node belongs to, or None"""
        while kind != "ir":
            p = self.par[(kind, idx)]
            if p is None:
                return None
            kind, idx = PARENT_KIND[kind], p
        return idx

    def subtree(self, kind, idx):
        out = [(kind, idx)]
        for ck in CHILD_KINDS.get(kind, []):
            for ci in self.children(kind, idx, ck):
                out += self.subtree(ck, ci)
        return out

    def uuids_in_ir(self, ir_idx):
        return {self.uuid[n] for n in self.subtree("ir", ir_idx)}

    def root_of(self, kind, idx):
        while kind != "ir":
            p = self.par[(kind, idx)]
            if p is None:
                break
            kind, idx = PARENT_KIND[kind], p
        return kind, idx

    def tree_uuids(self, kind, idx):
        return {self.uuid[n] for n in self.subtree(*self.root_of(kind, idx))}

    def move_ok(self, kind, idx, pkind, pidx):
        """UUIDs stay pairwise distinct inside one tree (the property's
        precondition for an IR): refuse a move that would put a loaded twin
        into the same tree as its original."""
        if self.root_of(kind, idx) == self.root_of(pkind, pidx):
            return True
        moving = [self.uuid[n] for n in self.subtree(kind, idx)]
        if len(set(moving)) != len(moving):
            return False
        return not (set(moving) & self.tree_uuids(pkind, pidx))

    def movable(self, kind, cs, pkind, pi, also=()):
        """the members of cs that may all be moved under (pkind, pi) without
        two equal UUIDs meeting in one tree"""
        have = set(self.tree_uuids(pkind, pi))
        proot = self.root_of(pkind, pi)
        for c in also:
            if self.root_of(kind, c) != proot:
                have |= {self.uuid[n] for n in self.subtree(kind, c)}
        out = []
        for c in cs:
            if c in out:
                out.append(c)
                continue
            if self.root_of(kind, c) == proot:
                out.append(c)
                continue
            us = [self.uuid[n] for n in self.subtree(kind, c)]
            if len(set(us)) == len(us) and not (set(us) & have):
                out.append(c)
                have |= set(us)
        return out

    # ------------------------------------------------------------ model moves
    def model_detach(self, kind, idx):
        p = self.par[(kind, idx)]
        if p is not None and kind == "mod":
            self.order[p].remove(idx)
        self.par[(kind, idx)] = None

    def model_attach(self, kind, idx, pidx, pos=None):
        self.model_detach(kind, idx)
        self.par[(kind, idx)] = pidx
        if kind == "mod":
            if pos is None:
                self.order[pidx].append(idx)
            else:
                self.order[pidx].insert(pos, idx)

    def failf(self, bucket, detail):
        self.fail.append((bucket, str(detail)[:1500]))

    # ------------------------------------------------------------ ops
    def do_setparent(self, kind, ci, pi):
        if pi is not None and not self.move_ok(kind, ci, PARENT_KIND[kind], pi):
            raise Skip()
        child = self.obj(kind, ci)
        parent = None if pi is None else self.obj(PARENT_KIND[kind], pi)
        setattr(child, PARENT_ATTR[kind], parent)
        if pi is None:
            self.model_detach(kind, ci)
        else:
            self.model_attach(kind, ci, pi)

    def do_refbounce(self, op):
        """a block / proxy that some symbol refers to leaves its parent and comes
        straight back (or is re-added while a member): nothing has changed
        afterwards, whatever route was taken"""
        refd = sorted({p for p in self.sym_pay.values() if p is not None and p[0] != "int"})
        refd = [key for key in refd if self.par.get(key) is not None]
        if not refd:
            raise Skip()
        kind, ci = refd[op.get("r", 0) % len(refd)]
        pi = self.par[(kind, ci)]
        child = self.obj(kind, ci)
        coll = getattr(self.obj(PARENT_KIND[kind], pi), COLL_ATTR[kind])
        route = op.get("route", 0) % 5
        self.tags.append("referent-bounced:route%d" % route)
        if route == 0:
            setattr(child, PARENT_ATTR[kind], None)
            setattr(child, PARENT_ATTR[kind], self.obj(PARENT_KIND[kind], pi))
        elif route == 1:
            coll.discard(child)
            coll.add(child)
        elif route == 2:
            coll.update([child])  # re-adding a member
        elif route == 3:
            coll ^= _oset([child])
            coll ^= _oset([child])
        else:
            coll.remove(child)
            coll |= _oset([child])
        # the model is where it was: detach + attach of the same pair

    def boom(self, objs, k):
        """an iterable that yields k objects and then fails: the injected fault
        of a "failed operation" (the built-in keeps what it consumed so far;
        a collection that applies nothing is accepted as well)"""
        def gen():
            for o in objs[:k]:
                yield o
            raise Boom()
        return gen()

    def failed_call(self, fn, what):
        """run a call whose operand raises Boom part-way; the exception has to
        come out unchanged"""
        try:
            fn()
        except Boom:
            return
        except Exception as e:  # noqa
            self.failf("refine:failed-op-exception-replaced", "%s: %r" % (what, e))
            return
        self.failf("refine:failed-op-exception-swallowed", what)

    def operand(self, objs, how):
        """(argument object, the objects in the order the argument yields them)"""
        if how == "set":
            arg = _oset(objs)
            return arg, list(arg)
        if how == "frozenset":
            arg = _ofrozenset(objs)
            return arg, list(arg)
        if how == "iter":
            return iter(list(objs)), list(objs)
        if how == "tuple":
            return tuple(objs), list(objs)
        return list(objs), list(objs)

    def do_set(self, op):
        kind = op["k"]
        pkind = PARENT_KIND[kind]
        pi = op["p"] % self.n(pkind)
        parent = self.obj(pkind, pi)
        coll = getattr(parent, COLL_ATTR[kind])
        f = op["f"]
        nk = self.n(kind)
        cs = self.movable(kind, [c % nk for c in op.get("cs", [])], pkind, pi)
        members = set(self.children(pkind, pi, kind))
        objs = [self.obj(kind, c) for c in cs]
        how = op.get("as", "list")
        if how == "view" and f in ("update", "ior", "iand", "isub", "ixor"):
            # the operand is a live owning collection (another parent's, or this
            # very one).  The built-in meaning is clear - two parents' sets are
            # disjoint, a set operated with itself is itself - and "inserted
            # while owned elsewhere" means moved: a |= b / a ^= b / a.update(b)
            # take all of b, a &= b empties a, a -= b changes nothing; with
            # itself |=, &=, update change nothing and -=, ^= empty it.
            qi = op.get("q", 0) % self.n(pkind)
            other = getattr(self.obj(pkind, qi), COLL_ATTR[kind])
            donors = self.children(pkind, qi, kind)
            if qi != pi and f in ("update", "ior", "ixor") and self.movable(kind, donors, pkind, pi) != donors:
                raise Skip()
            before = coll
            try:
                if f == "update":
                    coll.update(other)
                elif f == "ior":
                    coll |= other
                elif f == "iand":
                    coll &= other
                elif f == "isub":
                    coll -= other
                else:
                    coll ^= other
            except RuntimeError as e:
                self.failf("refine:set.%s-with-owning-set-raises" % f, "%s %s: %r" % (kind, "self" if qi == pi else "other parent's set", e))
                self.resync()
                return
            if coll is not before:
                self.failf("refine:set.inplace-op-rebinds", f)
            self.tags.append("view-operand:set." + f + (":self" if qi == pi else ":other"))
            if qi == pi:
                if f in ("isub", "ixor"):
                    for c in members:
                        self.model_detach(kind, c)
            elif f in ("update", "ior", "ixor"):
                for c in donors:
                    self.model_attach(kind, c, pi)
            elif f == "iand":
                for c in members:
                    self.model_detach(kind, c)
            return
        if op.get("xk") and f in ("discard", "remove", "isub"):
            # operand of another node kind (for module sets: a node the same
            # module owns through a sibling set): a non-member like any other
            okinds = [k2 for k2 in ("sec", "prx", "sym", "bi", "blk") if k2 != kind]
            if pkind == "mod":
                okinds = [k2 for k2 in ("sec", "prx", "sym") if k2 != kind]
            k2 = okinds[op["xk"] % len(okinds)]
            other = self.obj(k2, (op.get("cs") or [0])[0] % self.n(k2))
            if f == "discard":
                coll.discard(other)
            elif f == "remove":
                try:
                    coll.remove(other)
                    self.failf("refine:set.remove-nonmember-no-KeyError", "%s node in %s set" % (k2, kind))
                except KeyError:
                    pass
            else:
                coll -= _oset([other])
            if (other in coll) is not False:
                self.failf("refine:set.contains", "%s node reported as member of a %s set" % (k2, kind))
            return
        if f == "add":
            if not cs:
                raise Skip()
            r = coll.add(objs[0])
            if r is not None:
                self.failf("refine:set.add-returns", repr(r))
            self.model_attach(kind, cs[0], pi)
        elif f == "discard":
            if not cs:
                raise Skip()
            r = coll.discard(objs[0])
            if r is not None:
                self.failf("refine:set.discard-returns", repr(r))
            if cs[0] in members:
                self.model_detach(kind, cs[0])
        elif f == "remove":
            if not cs:
                raise Skip()
            try:
                coll.remove(objs[0])
                raised = None
            except KeyError as e:
                raised = e
            if cs[0] in members:
                if raised is not None:
                    self.failf("refine:set.remove-member-raises", repr(raised))
                self.model_detach(kind, cs[0])
            elif raised is None:
                self.failf("refine:set.remove-nonmember-no-KeyError", "%s %d" % (kind, cs[0]))
        elif f == "pop":
            try:
                got = coll.pop()
                raised = None
            except KeyError as e:
                raised = e
            if not members:
                if raised is None:
                    self.failf("refine:set.pop-empty-no-KeyError", repr(got))
            elif raised is not None:
                self.failf("refine:set.pop-nonempty-raises", repr(raised))
            else:
                idxs = [i for i in members if self.obj(kind, i) is got]
                if not idxs:
                    self.failf("refine:set.pop-returns-nonmember", repr(got))
                else:
                    self.model_detach(kind, idxs[0])
        elif f == "clear":
            coll.clear()
            for c in members:
                self.model_detach(kind, c)
        elif f == "update":
            cs2 = self.movable(kind, [c % nk for c in op.get("cs2", [])], pkind, pi, also=cs)
            parts = [cs, cs2][: 1 + (1 if op.get("two") else 0)]
            if op.get("zero"):
                parts = []
            if how == "boom":
                k = op.get("bk", 0) % (len(cs) + 1)
                self.failed_call(lambda: coll.update(self.boom(objs, k)), "%s set update" % kind)
                real = set(self.index_of(kind, o) for o in coll)
                if real == members | set(cs[:k]) and len(coll) == len(real):
                    for c in cs[:k]:
                        self.model_attach(kind, c, pi)
                elif real != members or len(coll) != len(real):
                    self.failf("refine:failed-op-contents", "%s set update: neither the consumed prefix nor nothing was added" % kind)
                    self.resync()
                return
            args = [self.operand([self.obj(kind, c) for c in part], how)[0] for part in parts]
            coll.update(*args)
            for part in parts:
                for c in part:
                    self.model_attach(kind, c, pi)
        elif f in ("ior", "iand", "isub", "ixor"):
            other = _oset(objs) if how != "frozenset" else _ofrozenset(objs)
            before = coll
            if f == "ior":
                coll |= other
                for c in cs:
                    self.model_attach(kind, c, pi)
            elif f == "iand":
                coll &= other
                for c in members - set(cs):
                    self.model_detach(kind, c)
            elif f == "isub":
                coll -= other
                for c in members & set(cs):
                    self.model_detach(kind, c)
            else:
                coll ^= other
                for c in dict.fromkeys(cs):
                    if c in members:
                        self.model_detach(kind, c)
                    else:
                        self.model_attach(kind, c, pi)
            if coll is not before:
                self.failf("refine:set.inplace-op-rebinds", f)
        else:
            raise ValueError("set op %r" % f)

    def do_list(self, op):
        ii = op["i"] % self.n("ir")
        ir = self.obj("ir", ii)
        lst = ir.modules
        f = op["f"]
        nm = self.n("mod")
        ms = self.movable("mod", [m % nm for m in op.get("ms", [])], "ir", ii)
        order = self.order[ii]
        model = list(order)
        a = op.get("a", 0)
        # the same position as an index object (legal wherever an int is)
        aa = _Idx(a) if op.get("ix") and isinstance(a, int) else a
        if aa is not a:
            self.tags.append("index-object:list." + f)

        def expect_exc(fn, exc_type, what):
            """run fn; return the exception (or None)"""
            try:
                fn()
                return None
            except Exception as e:  # noqa
                return e

        def settle(new_order, ambiguous=False):
            """install the expected order in the model; when the op re-inserted
            a module of this very list the exact position is ambiguous: accept
            the real order if it is a permutation-consistent outcome"""
            real = [self.index_of("mod", m) for m in lst]
            if ambiguous:
                if sorted(real) == sorted(set(new_order)) and len(real) == len(set(real)):
                    new_order = real
                else:
                    new_order = list(dict.fromkeys(new_order))
            for m in list(order):
                if m not in new_order:
                    self.model_detach("mod", m)
            for m in new_order:
                if self.par[("mod", m)] != ii:
                    self.model_attach("mod", m, ii)
            self.order[ii] = list(new_order)

        if f in ("append", "insert"):
            if not ms:
                raise Skip()
            m = ms[0]
            mo = self.obj("mod", m)
            same = m in model
            if f == "append":
                lst.append(mo)
                want = [x for x in model if x != m] + [m]
            elif op.get("huge"):
                # an index the built-in refuses (OverflowError beyond ssize_t,
                # TypeError for a non-integer): refused alike, nothing changes
                pos = [2 ** 64 - 1, -(2 ** 64), "0", None, 1.0][op["huge"] % 5]
                try:
                    [].insert(pos, None)
                    want_exc = None
                except Exception as ex:  # noqa
                    want_exc = type(ex)
                self.tags.append("failed-op:list.insert-bad-index")
                try:
                    lst.insert(pos, mo)
                    got_exc = None
                except Exception as ex:  # noqa
                    got_exc = type(ex)
                if got_exc is not want_exc:
                    self.failf("refine:list.insert-bad-index-exception", "insert(%r, ..): %r, built-in %r" % (pos, got_exc, want_exc))
                    self.resync()
                # model unchanged: the invariants are checked against it
                return
            else:
                pos = a if -50 < a < 50 else 0
                lst.insert(_Idx(pos) if op.get("ix") else pos, mo)
                tmp = list(model)
                tmp.insert(pos, -1)
                if same:
                    tmp.remove(m)
                want = [m if x == -1 else x for x in tmp]
            # a module of this very list inserted again moves: the built-in
            # result minus its old occurrence, as for item / slice assignment
            settle(want)
        elif f in ("extend", "iadd") and op.get("as") == "view":
            # the argument is another IR's (or this IR's) live module list: the
            # built-in appends every element of it in order; "moved rather than
            # duplicated" leaves the donor list empty (and a list extended with
            # itself in its old order)
            qi = op.get("a", 0) % self.n("ir")
            donors = list(self.order[qi])
            if qi != ii and self.movable("mod", donors, "ir", ii) != donors:
                raise Skip()
            other = self.obj("ir", qi).modules
            if f == "extend":
                lst.extend(other)
            else:
                lst += other
            self.tags.append("view-operand:list." + f + (":self" if qi == ii else ":other"))
            real = [self.index_of("mod", m) for m in lst]
            want = list(model) if qi == ii else list(model) + donors
            if real != want:
                self.failf("refine:list.%s-with-owning-list" % f, "%s list: got %r, want %r" % ("own" if qi == ii else "another IR's", real, want))
                self.resync()
            else:
                settle(want)
        elif f in ("extend", "iadd") and op.get("as") == "boom":
            seq = [self.obj("mod", m) for m in ms]
            k = op.get("bk", 0) % (len(ms) + 1)

            def call():
                x = lst
                if f == "extend":
                    x.extend(self.boom(seq, k))
                else:
                    x += self.boom(seq, k)

            self.failed_call(call, "list " + f)
            real = [self.index_of("mod", m) for m in lst]
            want = list(model)
            for m in ms[:k]:
                if m in want:
                    want.remove(m)
                want.append(m)
            if real == want:
                settle(want)
            elif real != model:
                self.failf("refine:failed-op-contents", "list %s: neither the consumed prefix nor nothing was appended" % f)
                self.resync()
        elif f in ("extend", "iadd"):
            seq = [self.obj("mod", m) for m in ms]
            arg, yielded = self.operand(seq, op.get("as", "list"))
            ms = [self.index_of("mod", o) for o in yielded]
            if f == "extend":
                lst.extend(arg)
            else:
                before = lst
                lst += arg
                if lst is not before:
                    self.failf("refine:list.iadd-rebinds", "")
            want = list(model)
            for m in ms:
                if m in want:
                    want.remove(m)
                want.append(m)
            settle(want)
        elif f == "delitem":
            e = expect_exc(lambda: lst.__delitem__(aa), IndexError, "del")
            if -len(model) <= a < len(model):
                if e is not None:
                    self.failf("refine:list.delitem-raises", repr(e))
                    raise e
                want = list(model)
                del want[a]
                settle(want)
            elif not isinstance(e, IndexError):
                self.failf("refine:list.delitem-out-of-range-no-IndexError", "%r -> %r" % (a, e))
        elif f == "delslice":
            sl = _slice(op)
            lst.__delitem__(sl)
            want = list(model)
            del want[sl]
            settle(want)
        elif f == "setitem":
            if not ms:
                raise Skip()
            m = ms[0]
            mo = self.obj("mod", m)
            e = expect_exc(lambda: lst.__setitem__(aa, mo), IndexError, "setitem")
            if -len(model) <= a < len(model):
                if e is not None:
                    self.failf("refine:list.setitem-raises", "%r" % (e,))
                    raise e
                want = list(model)
                old = want[a]
                want[a] = -1
                if m in want:
                    want.remove(m)
                want = [m if x == -1 else x for x in want]
                # the assigned slot holds the module afterwards; its old
                # occurrence in this list is the one that goes away
                settle(want)
            else:
                if not isinstance(e, IndexError):
                    self.failf("refine:list.setitem-out-of-range-no-IndexError", "%r -> %r" % (a, e))
        elif f == "setslice":
            sl = _slice(op)
            if op.get("perm") is not None and model[sl]:
                # assign a rotation of what the slice holds now, optionally with
                # one member swapped for an outsider: sizes always match
                cur = model[sl]
                r = op["perm"] % len(cur)
                ms = cur[r:] + cur[:r]
                if op["perm"] % 3 == 2 and op.get("ms"):
                    extra = [m % nm for m in op["ms"] if (m % nm) not in ms]
                    extra = self.movable("mod", extra[:1], "ir", ii)
                    if extra:
                        ms = ms[:-1] + extra
            if op.get("mis") and (sl.step or 1) != 1:
                # an extended slice given one item too few or too many: the
                # rejected assignment must leave everything as it was
                cur = model[sl]
                outsiders = self.movable("mod", [m for m in range(nm) if m not in cur], "ir", ii)
                if op["mis"] == 1 and cur:
                    ms = cur[1:]
                elif outsiders:
                    ms = cur + outsiders[:1]
            seq = [self.obj("mod", m) for m in ms]
            if op.get("as") == "boom":
                # the built-in materialises the argument first: nothing changes
                k = op.get("bk", 0) % (len(ms) + 1)
                self.failed_call(lambda: lst.__setitem__(sl, self.boom(seq, k)), "list slice assignment")
                if [self.index_of("mod", m) for m in lst] != model:
                    self.failf("refine:failed-op-contents", "list slice assignment changed the list although its argument failed")
                    self.resync()
                return
            dup = len(set(ms)) != len(ms)
            trial = list(model)
            try:
                trial[sl] = [-(k + 1) for k in range(len(ms))]
                builtin_exc = None
            except ValueError as ex:
                builtin_exc = ex
            e = expect_exc(lambda: lst.__setitem__(sl, self.operand(seq, op.get("as", "list") if op.get("as") not in ("set", "frozenset") else "list")[0]), ValueError, "setslice")
            if builtin_exc is not None:
                self.tags.append("failed-op:list.setslice-size" + ("-negstep" if (sl.step or 1) < 0 and model[sl] else ""))
                if not isinstance(e, ValueError):
                    self.failf("refine:list.setslice-size-mismatch-no-ValueError", repr(e))
                # a failed operation leaves everything as it was
            else:
                if e is not None:
                    self.failf("refine:list.setslice-raises", repr(e))
                    raise e
                want = []
                for x in trial:
                    if x < 0:
                        want.append(ms[-x - 1])
                    elif x not in ms:
                        want.append(x)
                # the same module listed twice in the argument has no built-in
                # counterpart under move semantics: it must end up in the list
                # exactly once (uniqueness, membership and both ends are checked)
                want = list(dict.fromkeys(want))
                settle(want, ambiguous=dup)
        elif f == "pop":
            has_arg = op.get("arg", False)
            try:
                got = lst.pop(aa) if has_arg else lst.pop()
                e = None
            except Exception as ex:  # noqa
                e = ex
            idx = a if has_arg else -1
            if -len(model) <= idx < len(model):
                if e is not None:
                    self.failf("refine:list.pop-raises", repr(e))
                    raise e
                want = list(model)
                m = want.pop(idx)
                if got is not self.obj("mod", m):
                    self.failf("refine:list.pop-returns-other", "%r" % (got,))
                settle(want)
            elif not isinstance(e, IndexError):
                self.failf("refine:list.pop-out-of-range-no-IndexError", repr(e))
        elif f == "remove" and op.get("xk"):
            k2 = ("sec", "sym", "prx", "bi")[op["xk"] % 4]
            other = self.obj(k2, a % self.n(k2))
            e = expect_exc(lambda: lst.remove(other), ValueError, "remove")
            if not isinstance(e, ValueError):
                self.failf("refine:list.remove-nonmember-no-ValueError", "%s node: %r" % (k2, e))
        elif f == "remove":
            if not ms:
                raise Skip()
            m = ms[0]
            e = expect_exc(lambda: lst.remove(self.obj("mod", m)), ValueError, "remove")
            if m in model:
                if e is not None:
                    self.failf("refine:list.remove-member-raises", repr(e))
                    raise e
                settle([x for x in model if x != m])
            elif not isinstance(e, ValueError):
                self.failf("refine:list.remove-nonmember-no-ValueError", repr(e))
        elif f == "reverse":
            r = lst.reverse()
            if r is not None:
                self.failf("refine:list.reverse-returns", repr(r))
            settle(list(reversed(model)))
        elif f == "clear":
            lst.clear()
            settle([])
        else:
            raise ValueError("list op %r" % f)

    # ---- non-mutating operations (C16) ------------------------------------
    def do_setq(self, op):
        import collections.abc as abc

        kind = op["k"]
        pkind = PARENT_KIND[kind]
        pi = op["p"] % self.n(pkind)
        coll = getattr(self.obj(pkind, pi), COLL_ATTR[kind])
        members = set(self.children(pkind, pi, kind))
        nk = self.n(kind)
        cs = [c % nk for c in op.get("cs", [])]
        f = op["f"]
        how = op.get("as", "set")
        if how == "wrapper":
            qi = op.get("q", 0) % self.n(pkind)
            other = getattr(self.obj(pkind, qi), COLL_ATTR[kind])
            okeys = set(self.children(pkind, qi, kind))
        elif how == "frozenset":
            other = _ofrozenset([self.obj(kind, c) for c in cs])
            okeys = set(cs)
        else:
            other = _oset([self.obj(kind, c) for c in cs])
            okeys = set(cs)

        def idxs(result):
            return [self.index_of(kind, o) for o in result]

        if f == "contains":
            for c in cs[:2]:
                if (self.obj(kind, c) in coll) is not (c in members):
                    self.failf("refine:set.contains", "%s%d in %s%d.%s" % (kind, c, pkind, pi, COLL_ATTR[kind]))
            if ("x" in coll) is not False or (None in coll) is not False:
                self.failf("refine:set.contains-foreign-object", "")
        elif f == "len":
            if len(coll) != len(members) or bool(coll) is not bool(members):
                self.failf("refine:set.len", "%d vs %d" % (len(coll), len(members)))
        elif f == "iter":
            got = idxs(coll)
            if len(got) != len(set(got)) or set(got) != members:
                self.failf("refine:set.iter", "%r vs %r" % (got, members))
        elif f in ("eq", "ne", "le", "lt", "ge", "gt", "isdisjoint"):
            import operator

            if f == "isdisjoint":
                got = coll.isdisjoint(other)
                want = members.isdisjoint(okeys)
            else:
                fn = getattr(operator, f)
                if op.get("refl"):
                    got = fn(other, coll)
                    want = fn(okeys, members)
                else:
                    got = fn(coll, other)
                    want = fn(members, okeys)
            if got is not want:
                self.failf("refine:set.compare-" + f, "%s%d.%s %s %r: %r, built-in says %r" % (pkind, pi, COLL_ATTR[kind], f, sorted(okeys), got, want))
        elif f in ("or", "and", "sub", "xor"):
            import operator

            fn = getattr(operator, f + "_" if f in ("or", "and") else f)
            if op.get("refl"):
                got = fn(other, coll)
                want = fn(okeys, members)
            else:
                got = fn(coll, other)
                want = fn(members, okeys)
            if not isinstance(got, abc.Set):
                self.failf("refine:set.operator-result-type", "%s -> %r" % (f, type(got)))
            else:
                gi = idxs(got)
                if len(gi) != len(set(gi)) or set(gi) != want:
                    self.failf(
                        "refine:set.operator-" + f + ("-reflected" if op.get("refl") else ""),
                        "%s%d.%s %s %r = %r, built-in says %r" % (pkind, pi, COLL_ATTR[kind], f, sorted(okeys), sorted(gi), sorted(want)),
                    )
                if hasattr(got, "_node"):
                    self.failf("refine:set.operator-result-owns-nodes", "%s -> %r" % (f, type(got)))
        else:
            raise ValueError("setq %r" % f)

    def do_listq(self, op):
        ii = op["i"] % self.n("ir")
        lst = self.obj("ir", ii).modules
        model = list(self.order[ii])
        mobjs = [self.obj("mod", m) for m in model]
        f = op["f"]
        a = op.get("a", 0)
        nm = self.n("mod")
        ms = [m % nm for m in op.get("ms", [])]

        def same(got, want, what):
            if type(got) is not type(want) and not (isinstance(got, list) and isinstance(want, list)):
                self.failf("refine:list." + what + "-type", "%r vs %r" % (type(got), type(want)))
            elif len(got) != len(want) or any(x is not y for x, y in zip(got, want)):
                self.failf("refine:list." + what, "%r vs %r" % ([self.index_of("mod", x) for x in got], [self.index_of("mod", x) for x in want]))

        if f == "getitem":
            try:
                got = lst[a]
                e = None
            except Exception as ex:  # noqa
                e = ex
            if -len(model) <= a < len(model):
                if e is not None or got is not mobjs[a]:
                    self.failf("refine:list.getitem", "%r -> %r %r" % (a, e, None if e else self.index_of("mod", got)))
            elif not isinstance(e, IndexError):
                self.failf("refine:list.getitem-out-of-range-no-IndexError", "%r -> %r" % (a, e))
        elif f == "getslice":
            sl = _slice(op)
            got = lst[sl]
            if isinstance(got, type(lst)):
                self.failf("refine:list.slice-returns-owning-list", repr(type(got)))
            else:
                same(list(got), mobjs[sl], "getslice")
        elif f in ("index", "count", "contains") and op.get("xk"):
            # an object that is no module at all: a non-member like any other
            k2 = ("sec", "sym", "prx", "bi")[op["xk"] % 4]
            other = self.obj(k2, a % self.n(k2)) if op["xk"] % 5 else "not a node"
            if f == "count" and lst.count(other) != 0:
                self.failf("refine:list.count", "foreign object counted")
            elif f == "contains" and (other in lst) is not False:
                self.failf("refine:list.contains", "foreign object reported as member")
            elif f == "index":
                try:
                    lst.index(other)
                    self.failf("refine:list.index", "foreign object found")
                except ValueError:
                    pass
        elif f in ("index", "count", "contains"):
            if not ms:
                raise Skip()
            mo = self.obj("mod", ms[0])
            if f == "count":
                if lst.count(mo) != mobjs.count(mo):
                    self.failf("refine:list.count", "")
            elif f == "contains":
                if (mo in lst) is not (mo in mobjs) or ("x" in lst) is not False:
                    self.failf("refine:list.contains", "")
            else:
                try:
                    want = mobjs.index(mo)
                    wexc = None
                except ValueError as ex:
                    want, wexc = None, ex
                try:
                    got = lst.index(mo)
                    gexc = None
                except Exception as ex:  # noqa
                    got, gexc = None, ex
                if (wexc is None) != (gexc is None) or got != want or (gexc is not None and not isinstance(gexc, ValueError)):
                    self.failf("refine:list.index", "%r/%r vs %r/%r" % (got, gexc, want, wexc))
        elif f == "iter":
            same(list(iter(lst)), mobjs, "iter")
        elif f == "reversed":
            same(list(reversed(lst)), list(reversed(mobjs)), "reversed")
        elif f == "len":
            if len(lst) != len(mobjs) or bool(lst) is not bool(mobjs):
                self.failf("refine:list.len", "%d vs %d" % (len(lst), len(mobjs)))
        else:
            raise ValueError("listq %r" % f)

    def index_of(self, kind, o):
        for i, x in enumerate(self.objs[kind]):
            if x is o:
                return i
        return -1

    def do_new(self, op):
        g = self.g
        kind = op["k"]
        kw = {}
        pi = op.get("p", -1)
        if kind != "ir" and pi >= 0:
            pi %= self.n(PARENT_KIND[kind])
            kw[PARENT_ATTR[kind]] = self.obj(PARENT_KIND[kind], pi)
        else:
            pi = None
        kids = {}
        repeated = False
        have = set() if pi is None else self.tree_uuids(PARENT_KIND[kind], pi)
        proot = None if pi is None else self.root_of(PARENT_KIND[kind], pi)
        for ck in CHILD_KINDS.get(kind, []):
            if ck != CHILD_KINDS[kind][op.get("ck", 0) % len(CHILD_KINDS[kind])]:
                continue
            sel = [c % self.n(ck) for c in op.get("cs", [])][:3]
            sel = list(dict.fromkeys(sel))
            ok = []
            for c in sel:
                us = [self.uuid[n] for n in self.subtree(ck, c)]
                if proot is not None and self.root_of(ck, c) == proot:
                    ok.append(c)  # already part of the tree the new node joins
                elif len(set(us)) == len(us) and not (set(us) & have):
                    ok.append(c)
                    have = have | set(us)
            sel = ok
            shape = op.get("shape", 0) % 6
            if sel and shape == 5:
                # the live collection of the first child's current parent: all of
                # its children move to the new node
                q = self.par[(ck, sel[0])]
                every = [] if q is None else (list(self.order[q]) if kind == "ir" else self.children(kind, q, ck))
                us = [self.uuid[n] for c in every for n in self.subtree(ck, c)]
                if every and len(set(us)) == len(us) and (proot is None or self.root_of(kind, q) == proot or not (set(us) & self.tree_uuids(PARENT_KIND[kind], pi))):
                    kids[ck] = list(every)
                    kw[COLL_ATTR[ck]] = getattr(self.obj(kind, q), COLL_ATTR[ck])
                    self.tags.append("ctor-children:live-view")
                    continue
                shape = 0
            if sel:
                kids[ck] = sel
                objs_ = [self.obj(ck, c) for c in sel]
                if shape == 4:
                    # the same child named twice: adopted once
                    objs_ = objs_ + objs_[:1]
                    repeated = True
                    self.tags.append("ctor-children:repeated")
                    shape = 0
                # constructors take any iterable of children
                kw[COLL_ATTR[ck]] = [objs_, iter(objs_), tuple(objs_), _oset(objs_)][shape] if kind != "ir" or shape != 3 else objs_
        idx = self.new_node(kind, **kw)
        # model: constructor first adopts the children, then attaches itself
        for ck, sel in kids.items():
            for c in sel:
                self.model_attach(ck, c, idx)
        if kind == "ir" and repeated and len(self.order[idx]) > 1:
            # appended again: the repeated module is the last one
            self.order[idx] = self.order[idx][1:] + self.order[idx][:1]
        if pi is not None:
            self.model_attach(kind, idx, pi)
        return idx

    def loadable(self, ii):
        """model: every symbol referent of IR ii is attached to the same or an
        earlier module of that IR (the loader resolves referents in order)."""
        order = self.order[ii]
        for mpos, m in enumerate(order):
            for s in self.children("mod", m, "sym"):
                pay = self.sym_pay[s]
                if pay is None or pay[0] == "int":
                    continue
                rk, ri = pay
                rm = self.module_of(rk, ri)
                if rm is None or rm not in order[: mpos + 1]:
                    return False
        return True

    def module_of(self, kind, idx):
        while kind != "mod":
            if kind == "ir":
                return None
            p = self.par[(kind, idx)]
            if p is None:
                return None
            kind, idx = PARENT_KIND[kind], p
        return idx

    def do_load(self, op):
        g = self.g
        ii = op["i"] % self.n("ir")
        if self.n("ir") >= 6 or not self.loadable(ii):
            raise Skip()
        buf = io.BytesIO()
        self.obj("ir", ii).save_protobuf_file(buf)
        ir2 = g.IR.load_protobuf_file(io.BytesIO(buf.getvalue()))
        # register the twins, mirroring the model of the source IR
        twin = {}
        new_ir = self.register("ir", ir2, self.uuid[("ir", ii)])
        self.order[new_ir] = []
        by_uuid = {}
        for m in ir2.modules:
            by_uuid[m.uuid] = ("mod", m)
            for p in m.proxies:
                by_uuid[p.uuid] = ("prx", p)
            for sy in m.symbols:
                by_uuid[sy.uuid] = ("sym", sy)
            for s in m.sections:
                by_uuid[s.uuid] = ("sec", s)
                for bi in s.byte_intervals:
                    by_uuid[bi.uuid] = ("bi", bi)
                    for b in bi.blocks:
                        by_uuid[b.uuid] = ("blk", b)
        src = self.subtree("ir", ii)[1:]
        if len(by_uuid) != len(src):
            self.failf("forest:load-node-count", "%d loaded, %d in model" % (len(by_uuid), len(src)))
            raise Skip()
        for kind, idx in src:
            u = self.uuid[(kind, idx)]
            if u not in by_uuid or by_uuid[u][0] != kind:
                self.failf("forest:load-node-missing", "%s %s" % (kind, u))
                raise Skip()
            o = by_uuid[u][1]
            nidx = self.register(kind, o, u)
            twin[(kind, idx)] = nidx
            if kind == "sym":
                self.sym_name[nidx] = self.sym_name[idx]
        for kind, idx in src:
            p = self.par[(kind, idx)]
            pk = PARENT_KIND[kind]
            self.par[(kind, twin[(kind, idx)])] = new_ir if pk == "ir" else twin[(pk, p)]
        self.order[new_ir] = [twin[("mod", m)] for m in self.order[ii]]
        for kind, idx in src:
            if kind == "sym":
                pay = self.sym_pay[idx]
                if pay is not None and pay[0] != "int":
                    pay = (pay[0], twin[(pay[0], pay[1])])
                self.sym_pay[twin[(kind, idx)]] = pay

    def do_edit(self, op):
        kind = op["k"]
        ci = op["c"] % self.n(kind)
        o = self.obj(kind, ci)
        v = op.get("v", 0)
        if kind in ("mod", "sec"):
            o.name = "n%d" % v
        elif kind == "bi":
            o.size = v
            o.address = None if v % 3 == 0 else v
        elif kind == "blk":
            o.size = v
            o.offset = v // 2
        elif kind == "sym":
            o.at_end = bool(v % 2)
        else:
            raise Skip()
        self.attrs[(kind, ci)] = self.read_attr(kind, o)

    # symbols (C10)
    def do_rename(self, op):
        si = op["c"] % self.n("sym")
        name = NAME_POOL[op.get("v", 0) % len(NAME_POOL)]
        self.obj("sym", si).name = name
        self.sym_name[si] = name

    def do_payload(self, op):
        si = op["c"] % self.n("sym")
        s = self.obj("sym", si)
        what = op.get("w", "none")
        via = op.get("via", 0) % 2
        if what == "blk":
            ri = op.get("r", 0) % self.n("blk")
            s.referent = self.obj("blk", ri)
            self.sym_pay[si] = ("blk", ri)
        elif what == "prx":
            ri = op.get("r", 0) % self.n("prx")
            s.referent = self.obj("prx", ri)
            self.sym_pay[si] = ("prx", ri)
        elif what == "int":
            v = op.get("r", 0)
            s.value = v
            self.sym_pay[si] = ("int", v)
        else:
            if via:
                s.value = None
            else:
                s.referent = None
            self.sym_pay[si] = None

    def do_newsym(self, op):
        """Symbol constructed with payload= and module= at once."""
        g = self.g
        what = op.get("w", "none")
        kw = {}
        pay = None
        if what == "blk":
            ri = op.get("r", 0) % self.n("blk")
            kw["payload"] = self.obj("blk", ri)
            pay = ("blk", ri)
        elif what == "prx":
            ri = op.get("r", 0) % self.n("prx")
            kw["payload"] = self.obj("prx", ri)
            pay = ("prx", ri)
        elif what == "int":
            kw["payload"] = op.get("r", 0)
            pay = ("int", op.get("r", 0))
        pi = op.get("p", -1)
        if pi >= 0:
            pi %= self.n("mod")
            kw["module"] = self.obj("mod", pi)
        name = NAME_POOL[op.get("v", 0) % len(NAME_POOL)]
        u = self.fresh_uuid()
        o = g.Symbol(name, uuid=u, **kw)
        idx = self.register("sym", o, u)
        self.sym_name[idx] = name
        self.sym_pay[idx] = pay
        if pi >= 0:
            self.model_attach("sym", idx, pi)

    def apply(self, op):
        name = op["op"]
        try:
            if name == "setparent":
                kind = op["k"]
                ci = op["c"] % self.n(kind)
                pi = op["p"]
                pi = None if pi < 0 else pi % self.n(PARENT_KIND[kind])
                self.do_setparent(kind, ci, pi)
            elif name == "set":
                self.do_set(op)
            elif name == "list":
                self.do_list(op)
            elif name == "new":
                self.do_new(op)
            elif name == "load":
                self.do_load(op)
            elif name == "edit":
                self.do_edit(op)
            elif name == "rename":
                self.do_rename(op)
            elif name == "payload":
                self.do_payload(op)
            elif name == "newsym":
                self.do_newsym(op)
            elif name == "refbounce":
                self.do_refbounce(op)
            elif name == "setq":
                self.do_setq(op)
            elif name == "listq":
                self.do_listq(op)
            else:
                raise ValueError("unknown op %r" % name)
            return True
        except Skip:
            self.noops += 1
            return False

    # ------------------------------------------------------------ observation
    def real_parent_idx(self, kind, idx):
        p = getattr(self.obj(kind, idx), PARENT_ATTR[kind])
        if p is None:
            return None
        return self.index_of(PARENT_KIND[kind], p)

    def resync(self):
        """After an op that raised: adopt the real forest as the model (if the
        real forest is not even self-consistent the forest: checks report it)."""
        for kind in ["mod", "sec", "bi", "blk", "prx", "sym"]:
            for i in range(self.n(kind)):
                rp = self.real_parent_idx(kind, i)
                self.par[(kind, i)] = rp if rp is None or rp >= 0 else None
        for ii in range(self.n("ir")):
            real = [self.index_of("mod", m) for m in self.obj("ir", ii).modules]
            self.order[ii] = [m for m in dict.fromkeys(real) if m >= 0 and self.par[("mod", m)] == ii]
        for si in range(self.n("sym")):
            s = self.obj("sym", si)
            self.sym_name[si] = s.name
            if s.referent is not None:
                for k in ("blk", "prx"):
                    j = self.index_of(k, s.referent)
                    if j >= 0:
                        self.sym_pay[si] = (k, j)
            elif s.value is not None:
                self.sym_pay[si] = ("int", s.value)
            else:
                self.sym_pay[si] = None
        for key in self.attrs:
            self.attrs[key] = self.read_attr(key[0], self.obj(*key))

    def reach(self, ir):
        """uuid -> node reachable from ir by containment iteration (list of
        nodes per uuid so that duplicates show)."""
        out = {ir.uuid: [ir]}

        def add(n):
            out.setdefault(n.uuid, []).append(n)

        for m in ir.modules:
            add(m)
            for p in m.proxies:
                add(p)
            for sy in m.symbols:
                add(sy)
            for s in m.sections:
                add(s)
                for bi in s.byte_intervals:
                    add(bi)
                    for b in bi.blocks:
                        add(b)
        return out

    def check_cache(self, where):
        probes = set(self.uuid.values())
        probes.add(uuid.UUID(int=0xDEAD))
        probes.add(uuid.UUID(int=0))
        for ii in range(self.n("ir")):
            ir = self.obj("ir", ii)
            r = self.reach(ir)
            for u in probes:
                got = ir.get_by_uuid(u)
                want = r.get(u)
                if want is None:
                    if got is not None:
                        self.failf("cache:stale-entry", "%s: ir%d.get_by_uuid(%s) = %r but no such node is attached" % (where, ii, u, _nm(got)))
                        return
                elif len(want) > 1:
                    self.failf("cache:two-attached-nodes-one-uuid", "%s: ir%d holds %d nodes with uuid %s" % (where, ii, len(want), u))
                    return
                elif got is not want[0]:
                    self.failf(
                        "cache:missing-entry" if got is None else "cache:wrong-node",
                        "%s: ir%d.get_by_uuid(%s) = %r, attached node is %r" % (where, ii, u, _nm(got), _nm(want[0])),
                    )
                    return

    def check_forest(self, where, model=True):
        g = self.g
        # both ends + model
        for kind in ["mod", "sec", "bi", "blk", "prx", "sym"]:
            pk = PARENT_KIND[kind]
            for ci in range(self.n(kind)):
                child = self.obj(kind, ci)
                realp = getattr(child, PARENT_ATTR[kind])
                owners = []
                for pi in range(self.n(pk)):
                    coll = getattr(self.obj(pk, pi), COLL_ATTR[kind])
                    cnt = sum(1 for x in coll if x is child)
                    if (child in coll) != (cnt > 0):
                        self.failf("forest:contains-vs-iteration", "%s: %s%d in %s%d.%s" % (where, kind, ci, pk, pi, COLL_ATTR[kind]))
                        return
                    if cnt > 1:
                        self.failf("forest:appears-twice", "%s: %s%d x%d in %s%d.%s" % (where, kind, ci, cnt, pk, pi, COLL_ATTR[kind]))
                        return
                    if cnt:
                        owners.append(pi)
                if len(owners) > 1:
                    self.failf("forest:two-parents", "%s: %s%d is in the collections of %s %r" % (where, kind, ci, pk, owners))
                    return
                want_owner = [] if realp is None else [self.index_of(pk, realp)]
                if owners != want_owner:
                    self.failf(
                        "forest:ends-disagree",
                        "%s: %s%d.%s names %s%r but it is listed by %s%r" % (where, kind, ci, PARENT_ATTR[kind], pk, want_owner, pk, owners),
                    )
                    return
                if model:
                    mp = self.par[(kind, ci)]
                    if want_owner != ([] if mp is None else [mp]):
                        self.failf(
                            "forest:model-parent",
                            "%s: %s%d has parent %s%r, expected %s%r" % (where, kind, ci, pk, want_owner, pk, mp),
                        )
                        return
        for pk, cks in CHILD_KINDS.items():
            for pi in range(self.n(pk)):
                for ck in cks:
                    coll = getattr(self.obj(pk, pi), COLL_ATTR[ck])
                    n_iter = sum(1 for _ in coll)
                    if len(coll) != n_iter:
                        self.failf("forest:len-vs-iteration", "%s: len(%s%d.%s)=%d, iteration yields %d" % (where, pk, pi, COLL_ATTR[ck], len(coll), n_iter))
                        return
        if model:
            for ii in range(self.n("ir")):
                real = [self.index_of("mod", m) for m in self.obj("ir", ii).modules]
                if real != self.order[ii]:
                    self.failf("forest:module-order", "%s: ir%d.modules = %r, expected %r" % (where, ii, real, self.order[ii]))
                    return
        # derived accessors
        for kind, accs in DERIVED.items():
            for ci in range(self.n(kind)):
                o = self.obj(kind, ci)
                chain = {}
                k, i = kind, ci
                while k != "ir":
                    p = self.real_parent_idx(k, i)
                    if p is None or p < 0:
                        break
                    k, i = PARENT_KIND[k], p
                    chain[k] = self.obj(k, i)
                for acc, ak in accs:
                    got = getattr(o, acc)
                    if got is not chain.get(ak):
                        self.failf("forest:derived-accessor", "%s: %s%d.%s is %r, forest says %r" % (where, kind, ci, acc, _nm(got), _nm(chain.get(ak))))
                        return
        # aggregate iterators
        for ii in range(self.n("ir")):
            ir = self.obj("ir", ii)
            mods = list(ir.modules)
            secs = [s for m in mods for s in m.sections]
            bis = [bi for s in secs for bi in s.byte_intervals]
            blks = [b for bi in bis for b in bi.blocks]
            prx = [p for m in mods for p in m.proxies]
            syms = [s for m in mods for s in m.symbols]
            code = [b for b in blks if isinstance(b, g.CodeBlock)]
            data = [b for b in blks if isinstance(b, g.DataBlock)]
            for name, want in (
                ("sections", secs), ("byte_intervals", bis), ("byte_blocks", blks), ("proxy_blocks", prx),
                ("symbols", syms), ("code_blocks", code), ("data_blocks", data), ("cfg_nodes", code + prx),
            ):
                got = list(getattr(ir, name))
                if sorted(map(id, got)) != sorted(map(id, want)):
                    self.failf("forest:aggregate-iterator", "%s: ir%d.%s yields %d nodes, forest has %d" % (where, ii, name, len(got), len(want)))
                    return
        for mi in range(self.n("mod")):
            m = self.obj("mod", mi)
            secs = list(m.sections)
            bis = [bi for s in secs for bi in s.byte_intervals]
            blks = [b for bi in bis for b in bi.blocks]
            code = [b for b in blks if isinstance(b, g.CodeBlock)]
            data = [b for b in blks if isinstance(b, g.DataBlock)]
            for name, want in (
                ("byte_intervals", bis), ("byte_blocks", blks), ("code_blocks", code), ("data_blocks", data),
                ("cfg_nodes", code + list(m.proxies)),
            ):
                got = list(getattr(m, name))
                if sorted(map(id, got)) != sorted(map(id, want)):
                    self.failf("forest:aggregate-iterator", "%s: mod%d.%s yields %d nodes, forest has %d" % (where, mi, name, len(got), len(want)))
                    return
        for si in range(self.n("sec")):
            s = self.obj("sec", si)
            blks = [b for bi in s.byte_intervals for b in bi.blocks]
            for name, want in (
                ("byte_blocks", blks),
                ("code_blocks", [b for b in blks if isinstance(b, g.CodeBlock)]),
                ("data_blocks", [b for b in blks if isinstance(b, g.DataBlock)]),
            ):
                got = list(getattr(s, name))
                if sorted(map(id, got)) != sorted(map(id, want)):
                    self.failf("forest:aggregate-iterator", "%s: sec%d.%s" % (where, si, name))
                    return
        # frame condition
        for key, want in self.attrs.items():
            got = self.read_attr(key[0], self.obj(*key))
            if got != want:
                self.failf("forest:frame-condition", "%s: %s%d attribute changed from %r to %r" % (where, key[0], key[1], want, got))
                return

    def check_symbols(self, where):
        for mi in range(self.n("mod")):
            m = self.obj("mod", mi)
            members = self.children("mod", mi, "sym")
            for name in NAME_POOL + ["unused", "m0"]:
                got = list(m.symbols_named(name))
                want = [i for i in members if self.sym_name[i] == name]
                gi = [self.index_of("sym", s) for s in got]
                if len(gi) != len(set(gi)) or sorted(gi) != sorted(want):
                    self.failf("symidx:symbols_named", "%s: mod%d.symbols_named(%r) = %r, expected %r" % (where, mi, name, sorted(gi), sorted(want)))
                    return
        for rk in ("blk", "prx"):
            for ri in range(self.n(rk)):
                b = self.obj(rk, ri)
                got = [self.index_of("sym", s) for s in b.references]
                mod = self.module_of(rk, ri)
                want = (
                    []
                    if mod is None
                    else [i for i in self.children("mod", mod, "sym") if self.sym_pay[i] == (rk, ri)]
                )
                if len(got) != len(set(got)) or sorted(got) != sorted(want):
                    self.failf("symidx:references", "%s: %s%d.references = %r, expected %r (module %r)" % (where, rk, ri, sorted(got), sorted(want), mod))
                    return
        # the symbols' own view of their payload
        for si in range(self.n("sym")):
            s = self.obj("sym", si)
            pay = self.sym_pay[si]
            want_ref = None if pay is None or pay[0] == "int" else self.obj(pay[0], pay[1])
            want_val = pay[1] if pay is not None and pay[0] == "int" else None
            if s.referent is not want_ref or s.value != want_val or s.name != self.sym_name[si]:
                self.failf("symidx:symbol-state", "%s: sym%d name=%r value=%r referent=%r, expected %r %r" % (where, si, s.name, s.value, _nm(s.referent), self.sym_name[si], pay))
                return


def _nm(o):
    if o is None:
        return None
    return "%s(%s)" % (type(o).__name__, str(getattr(o, "uuid", "?"))[-6:])


class _oset(set):
    """a plain set whose iteration order is insertion order of the harness'
    list (deterministic replay): built-in set of gtirb nodes iterates by id()."""

    def __init__(self, items):
        super().__init__(items)
        self._order = list(dict.fromkeys(items))

    def __iter__(self):
        return iter(self._order)


class _ofrozenset(frozenset):
    """frozenset with the harness' insertion order as iteration order"""

    def __new__(cls, items):
        self = super().__new__(cls, items)
        self._order = list(dict.fromkeys(items))
        return self

    def __iter__(self):
        return iter(self._order)


def _slice(op):
    def cv(x):
        return None if x is None else int(x)

    step = cv(op.get("s"))
    if step == 0:
        step = None
    return slice(cv(op.get("a")), cv(op.get("b")), step)
