"""Independent rendition of the protobuf schema for property C02 (and the
expected-value side of C01 / C09 / C17):

  from_spec(resolved, module_order)  spec -> gtirb.proto.IR message ("reference writer")
  expected_snapshot(msg)             IR message -> vlib.snapshot tree  ("reference reader")
  canon_msg(msg)                     IR message -> canonical tree for message comparison

Only the generated message classes (built from /repo/proto by vlib.build) and
the spec are used; none of gtirb's _to_protobuf / _decode_protobuf code.
"""

import json

from . import auxref, build, snapshot, tngrammar
from .spec import schema


def _ek(key):
    """equality class of a set element / mapping key as Python sees it
    (0.0 and -0.0 are one key; the key object itself is hashable)"""
    return key


def proto_version():
    return int(build.read_version_txt(build.repo_root())["VERSION_PROTOBUF"])


def _pb():
    from gtirb.proto import (
        AuxData_pb2,
        ByteInterval_pb2,
        CFG_pb2,
        IR_pb2,
        Module_pb2,
        Section_pb2,
        Symbol_pb2,
        SymbolicExpression_pb2,
    )

    return locals()


def _fill_aux(container, r, holder_spec):
    for a in holder_spec["aux"]:
        tree, jv = r.aux_value(a)
        entry = container[a["key"]]
        entry.type_name = tngrammar.to_string(tree)
        entry.data = auxref.encode(tree, jv)


def from_spec(r, module_order):
    pb = _pb()
    spec = r.spec
    ir = pb["IR_pb2"].IR()
    ir.uuid = r.ir_uuid.bytes
    ir.version = proto_version()
    _fill_aux(ir.aux_data, r, spec["ir"])
    by_uuid = {r.uuid(mi["spec"]): mi for mi in r.mods}
    for mu in module_order:
        mi = by_uuid[mu]
        m = mi["spec"]
        pm = ir.modules.add()
        pm.uuid = mu.bytes
        pm.name = m["name"]
        pm.binary_path = m["binary_path"]
        pm.isa = m["isa"]
        pm.file_format = m["file_format"]
        pm.byte_order = m["byte_order"]
        pm.preferred_addr = m["preferred_addr"]
        pm.rebase_delta = m["rebase_delta"]
        entry = r.entry(mi)
        if entry is not None:
            pm.entry_point = r.uuid(entry).bytes
        _fill_aux(pm.aux_data, r, m)
        for p in m["proxies"]:
            pm.proxies.add().uuid = r.uuid(p).bytes
        for s in m["sections"]:
            ps = pm.sections.add()
            ps.uuid = r.uuid(s).bytes
            ps.name = s["name"]
            ps.section_flags.extend(s["flags"])
            for bi in s["intervals"]:
                pi = ps.byte_intervals.add()
                pi.uuid = r.uuid(bi).bytes
                if bi["address"] is not None:
                    pi.has_address = True
                    pi.address = bi["address"]
                pi.size = bi["size"]
                pi.contents = bytes(bi["contents"])
                for b in bi["blocks"]:
                    pblk = pi.blocks.add()
                    pblk.offset = b["offset"]
                    if b["kind"] == "code":
                        pblk.code.uuid = r.uuid(b).bytes
                        pblk.code.size = b["size"]
                        pblk.code.decode_mode = b["decode_mode"]
                    else:
                        pblk.data.uuid = r.uuid(b).bytes
                        pblk.data.size = b["size"]
                for at, e, s1, s2 in r.exprs(mi, bi):
                    pe = pi.symbolic_expressions[at]
                    if e["kind"] == "const":
                        pe.addr_const.offset = e["offset"]
                        pe.addr_const.symbol_uuid = r.uuid(s1).bytes
                    else:
                        pe.addr_addr.scale = e["scale"]
                        pe.addr_addr.offset = e["offset"]
                        pe.addr_addr.symbol1_uuid = r.uuid(s1).bytes
                        pe.addr_addr.symbol2_uuid = r.uuid(s2).bytes
                    pe.attribute_flags.extend(e["attrs"])
        for sy in m["symbols"]:
            psy = pm.symbols.add()
            psy.uuid = r.uuid(sy).bytes
            psy.name = sy["name"]
            psy.at_end = sy["at_end"]
            pay = r.payload(mi, sy)
            if pay is not None:
                if pay[0] == "value":
                    psy.value = pay[1]
                else:
                    psy.referent_uuid = r.uuid(pay[1]).bytes
    for mu in module_order:
        mi = by_uuid[mu]
        for n in mi["code"] + mi["proxies"]:
            ir.cfg.vertices.append(r.uuid(n).bytes)
    for s, t, lab, _how in r.edges():
        pe = ir.cfg.edges.add()
        pe.source_uuid = r.uuid(s).bytes
        pe.target_uuid = r.uuid(t).bytes
        if lab is not None:
            pe.label.type = lab[0]
            pe.label.conditional = lab[1]
            pe.label.direct = lab[2]
            pe.label.SetInParent()
    ir.cfg.SetInParent()
    return ir


# --------------------------------------------------------------- canon_msg


def _k(x):
    return json.dumps(x, sort_keys=True)


def _aux_canon(container):
    out = {}
    for key in container:
        entry = container[key]
        d = {"type_name": entry.type_name}
        try:
            tree = tngrammar.parse(entry.type_name)
        except tngrammar.Reject:
            tree = None
        if tree is not None and auxref.all_known(tree) and auxref.well_formed(tree):
            try:
                jv, used = auxref.decode(tree, entry.data)
                d["value"] = snapshot.canon_jv(tree, jv)
                d["all_bytes_used"] = used == len(entry.data)
            except (auxref.RefError, UnicodeDecodeError) as e:
                d["value"] = ["UNDECODABLE", repr(e), entry.data.hex()]
        else:
            d["value"] = ["BYTES", entry.data.hex()]
        out[key] = d
    return out


def _expr_canon(pe):
    which = pe.WhichOneof("value")
    d = {"which": which, "attribute_flags": sorted(pe.attribute_flags)}
    if which == "addr_const":
        d.update(offset=pe.addr_const.offset, symbol=pe.addr_const.symbol_uuid.hex())
    elif which == "addr_addr":
        d.update(
            offset=pe.addr_addr.offset,
            scale=pe.addr_addr.scale,
            symbol1=pe.addr_addr.symbol1_uuid.hex(),
            symbol2=pe.addr_addr.symbol2_uuid.hex(),
        )
    return d


def canon_msg(ir):
    mods = []
    for pm in ir.modules:
        secs = []
        for ps in pm.sections:
            ivs = []
            for pi in ps.byte_intervals:
                blocks = []
                for pblk in pi.blocks:
                    which = pblk.WhichOneof("value")
                    inner = getattr(pblk, which) if which else None
                    blocks.append(
                        {
                            "offset": pblk.offset,
                            "which": which,
                            "uuid": inner.uuid.hex() if inner is not None else None,
                            "size": inner.size if inner is not None else None,
                            "decode_mode": inner.decode_mode if which == "code" else None,
                        }
                    )
                ivs.append(
                    {
                        "uuid": pi.uuid.hex(),
                        "has_address": pi.has_address,
                        "address": pi.address,
                        "size": pi.size,
                        "contents": pi.contents.hex(),
                        "blocks": sorted(blocks, key=_k),
                        "exprs": {str(k): _expr_canon(pi.symbolic_expressions[k]) for k in pi.symbolic_expressions},
                    }
                )
            secs.append(
                {
                    "uuid": ps.uuid.hex(),
                    "name": ps.name,
                    "section_flags": sorted(ps.section_flags),
                    "byte_intervals": sorted(ivs, key=lambda d: d["uuid"]),
                }
            )
        syms = []
        for psy in pm.symbols:
            which = psy.WhichOneof("optional_payload")
            syms.append(
                {
                    "uuid": psy.uuid.hex(),
                    "name": psy.name,
                    "at_end": psy.at_end,
                    "which": which,
                    "value": psy.value if which == "value" else None,
                    "referent_uuid": psy.referent_uuid.hex() if which == "referent_uuid" else None,
                }
            )
        mods.append(
            {
                "uuid": pm.uuid.hex(),
                "name": pm.name,
                "binary_path": pm.binary_path,
                "isa": pm.isa,
                "file_format": pm.file_format,
                "byte_order": pm.byte_order,
                "preferred_addr": pm.preferred_addr,
                "rebase_delta": pm.rebase_delta,
                "entry_point": pm.entry_point.hex(),
                "proxies": sorted(p.uuid.hex() for p in pm.proxies),
                "sections": sorted(secs, key=lambda d: d["uuid"]),
                "symbols": sorted(syms, key=lambda d: d["uuid"]),
                "aux": _aux_canon(pm.aux_data),
            }
        )
    edges = []
    for pe in ir.cfg.edges:
        lab = None
        if pe.HasField("label"):
            lab = [pe.label.type, pe.label.conditional, pe.label.direct]
        edges.append([pe.source_uuid.hex(), pe.target_uuid.hex(), lab])
    return {
        "uuid": ir.uuid.hex(),
        "version": ir.version,
        "modules": mods,
        "aux": _aux_canon(ir.aux_data),
        "vertices": sorted(v.hex() for v in ir.cfg.vertices),
        "edges": sorted(edges, key=_k),
    }


# --------------------------------------------------------- expected_snapshot


def _hex_or_none(b):
    return b.hex() if b else None


def _aux_expected(container):
    out = {}
    for key in container:
        entry = container[key]
        d = {"type": entry.type_name}
        tree = tngrammar.parse(entry.type_name)
        if auxref.all_known(tree) and auxref.well_formed(tree):
            jv, _used = auxref.decode(tree, entry.data)
            # the decoder builds Python sets / dicts: repetitions collapse
            d["value"] = snapshot.canon_jv(tree, _collapse(tree, jv))
        else:
            d["value"] = ["BYTES", entry.data.hex()]
        out[key] = d
    return out


def _collapse(tree, jv):
    from . import auxgen

    name, subs = tree
    if name == "sequence":
        return [_collapse(subs[0], x) for x in jv]
    if name == "set":
        out, seen = [], set()
        for x in jv:
            x = _collapse(subs[0], x)
            k = _ek(auxgen.eqkey(subs[0], x))
            if k not in seen:
                seen.add(k)
                out.append(x)
        return out
    if name == "mapping":
        order, vals = [], {}
        for k, v in jv:
            k = _collapse(subs[0], k)
            kk = _ek(auxgen.eqkey(subs[0], k))
            if kk not in vals:
                order.append((kk, k))
            vals[kk] = _collapse(subs[1], v)  # last value wins, first key object stays
        return [[k, vals[kk]] for kk, k in order]
    if name == "tuple":
        return [_collapse(s, x) for s, x in zip(subs, jv)]
    if name == "variant":
        return {"i": jv["i"], "v": _collapse(subs[jv["i"]], jv["v"])}
    return jv


def expected_snapshot(ir, aux_values=True):
    sc = schema()
    known_attrs = set(sc["sym_attr"])
    nodes = {}
    dups = []

    def put(h, d):
        if h in nodes:
            dups.append(h)
        nodes[h] = d

    irh = ir.uuid.hex()
    put(
        irh,
        {
            "kind": "IR",
            "version": ir.version,
            "modules": [pm.uuid.hex() for pm in ir.modules],
            "aux": _aux_expected(ir.aux_data) if aux_values else {k: {"type": ir.aux_data[k].type_name} for k in ir.aux_data},
        },
    )
    for pm in ir.modules:
        mh = pm.uuid.hex()
        put(
            mh,
            {
                "kind": "Module",
                "parent": irh,
                "name": pm.name,
                "binary_path": pm.binary_path,
                "isa": ["E", "ISA", pm.isa],
                "file_format": ["E", "FileFormat", pm.file_format],
                "byte_order": ["E", "ByteOrder", pm.byte_order],
                "preferred_addr": pm.preferred_addr,
                "rebase_delta": pm.rebase_delta,
                "entry_point": _hex_or_none(pm.entry_point),
                "sections": sorted(s.uuid.hex() for s in pm.sections),
                "proxies": sorted(p.uuid.hex() for p in pm.proxies),
                "symbols": sorted(s.uuid.hex() for s in pm.symbols),
                "aux": _aux_expected(pm.aux_data) if aux_values else {k: {"type": pm.aux_data[k].type_name} for k in pm.aux_data},
            },
        )
        for p in pm.proxies:
            put(p.uuid.hex(), {"kind": "ProxyBlock", "parent": mh})
        for ps in pm.sections:
            sh = ps.uuid.hex()
            put(
                sh,
                {
                    "kind": "Section",
                    "parent": mh,
                    "name": ps.name,
                    "flags": sorted((["E", "Flag", f] for f in set(ps.section_flags)), key=_k),
                    "intervals": sorted(pi.uuid.hex() for pi in ps.byte_intervals),
                },
            )
            for pi in ps.byte_intervals:
                ih = pi.uuid.hex()
                exprs = {}
                for off in pi.symbolic_expressions:
                    pe = pi.symbolic_expressions[off]
                    attrs = sorted(
                        (["E", a] if a in known_attrs else ["I", a] for a in set(pe.attribute_flags)),
                        key=_k,
                    )
                    which = pe.WhichOneof("value")
                    if which == "addr_const":
                        exprs[str(off)] = {
                            "kind": "const",
                            "offset": pe.addr_const.offset,
                            "symbol": pe.addr_const.symbol_uuid.hex(),
                            "attrs": attrs,
                        }
                    else:
                        exprs[str(off)] = {
                            "kind": "addr",
                            "offset": pe.addr_addr.offset,
                            "scale": pe.addr_addr.scale,
                            "symbol1": pe.addr_addr.symbol1_uuid.hex(),
                            "symbol2": pe.addr_addr.symbol2_uuid.hex(),
                            "attrs": attrs,
                        }
                blocks = []
                for pblk in pi.blocks:
                    which = pblk.WhichOneof("value")
                    inner = getattr(pblk, which)
                    d = {
                        "kind": "CodeBlock" if which == "code" else "DataBlock",
                        "parent": ih,
                        "offset": pblk.offset,
                        "size": inner.size,
                    }
                    if which == "code":
                        d["decode_mode"] = ["E", "DecodeMode", inner.decode_mode]
                    put(inner.uuid.hex(), d)
                    blocks.append(inner.uuid.hex())
                put(
                    ih,
                    {
                        "kind": "ByteInterval",
                        "parent": sh,
                        "address": pi.address if pi.has_address else None,
                        "size": pi.size,
                        "initialized_size": len(pi.contents),
                        "contents": pi.contents.hex(),
                        "blocks": sorted(blocks),
                        "exprs": exprs,
                    },
                )
        for psy in pm.symbols:
            which = psy.WhichOneof("optional_payload")
            put(
                psy.uuid.hex(),
                {
                    "kind": "Symbol",
                    "parent": mh,
                    "name": psy.name,
                    "at_end": psy.at_end,
                    "value": psy.value if which == "value" else None,
                    "referent": psy.referent_uuid.hex() if which == "referent_uuid" else None,
                },
            )
    edges = set()
    for pe in ir.cfg.edges:
        lab = None
        if pe.HasField("label"):
            lab = [["E", "EdgeType", pe.label.type], pe.label.conditional, pe.label.direct]
        edges.add(_k([pe.source_uuid.hex(), pe.target_uuid.hex(), lab]))
    return {
        "ir": irh,
        "nodes": nodes,
        "edges": sorted((json.loads(e) for e in edges), key=_k),
        "duplicate_uuids": sorted(dups),
    }
