# executed by gen_manifest.py; one add(...) per claimed property
add(
    "C15",
    "exhaustive short-string enumeration + grammar-directed random generation, differential against a reference parser",
    "Exploration: every string over two small alphabets up to a length bound is enumerated exhaustively (quick: 5 letters to length 8; thorough: to length 11, and 4 letters to length 13) and grammar-directed Unicode trees and their single-edit mutants are generated; each is judged by an independent reference parser (verdict, tree, print round trip, exception type, public encode/decode surface). Not a proof: strings beyond the bounds (and beyond ~300 tokens) are unexplored.",
    "Trusts vlib/tngrammar.py (40-line reference parser written from the property's grammar), Hypothesis, CPython.",
)

add(
    "C07",
    "round-trip property over generated (type tree, value) pairs with an independently computed expectation; probe codec for exact consumption",
    "Exploration: Hypothesis generates type trees of the AuxData grammar to depth 4 and values biased to integer bounds, multi-byte/NUL strings, special floats and attached/foreign UUIDs (quick 16k, thorough 400k cases) plus an exhaustive integer-boundary table in 14 container contexts; each is encoded, decoded (bytes, stream, with trailing junk, nested before a sentinel, behind a probe codec that measures consumption) and pushed through AuxData + IR save/load, and compared with an expectation computed by vlib/auxref (float32 rounding by integer arithmetic, node identity). Sampling, not proof.",
    "Trusts vlib/auxref.py + vlib/auxgen.py, Hypothesis, CPython struct only for double<->bits conversion in the harness.",
)
add(
    "C08",
    "differential testing: byte-for-byte against an independent reference encoder, cross-decoding by the reference decoder and by the repository's Java codec",
    "Exploration: for generated (type, value) pairs (quick 12k, thorough 240k) gtirb's bytes must equal those of vlib/auxref (written from the format description, integer arithmetic only), gtirb must decode reference bytes with sets/mappings in rotated order, the reference must decode gtirb's bytes completely, and for the Java-supported sub-grammar (half of the shards) the repository's Java codec must decode gtirb's bytes to the same rendering, consume all of them, re-encode them identically, and gtirb must decode Java's re-encoding of reference bytes. Sampling, not proof.",
    "Trusts vlib/auxref.py, OpenJDK 17, /repo/java codec sources + a 2-method ByteString stub, java/AuxDriver.java.",
)
add(
    "C11",
    "stateful model-based testing: op programs against a Python-set reference model, full observation after every step",
    "Exploration: Hypothesis-generated op programs (quick 6k, thorough 120k histories of up to 40 ops, swarm-selected opcodes) over 5 CFG nodes x 6 labels drive IR.cfg and a Python set in lock step; after every op length, duplicate-free iteration, membership of all 150 candidate edges, out_edges/in_edges of every node and the blocks' own incoming/outgoing views (attached, detached, other IR) are compared, including KeyError behaviour of remove/pop. Sampling of histories, not proof.",
    "Trusts CPython set semantics as the model, Hypothesis.",
)
add(
    "C19",
    "stateful model-based testing: constructor + op programs against a bytearray reference model, save/load inside the history",
    "Exploration: Hypothesis-generated programs (quick 8k, thorough 100k; constructor variants incl. invalid ones, then <= 30 size / initialized_size / content / block offset+size / address edits, probes and save+load steps) run against a bytearray+size model; after every step initialized_size, contents, size, stored<=size, every block's address, contents slice, contains_offset/contains_address at all range boundaries are compared, and every save must load back. Sampling of histories, not proof.",
    "Trusts the 40-line model in checks/c19_bytes.py (written from the property text and doc/general/ByteInterval.md), Hypothesis.",
)
add(
    "C01",
    "round-trip property over generated IR specs realised through generated construction routes; snapshot equality + deep_eq + re-save comparison",
    "Exploration: Hypothesis-generated self-contained IR specs (quick 3k, thorough ~45k; boundary-biased scalars, every schema enum number, all reference kinds, AuxData at both levels) are built through the public API along generated routes (parent= keywords, constructor children, collection add/update/|=/append/insert/extend, parent-attribute assignment, late attribute assignment), saved and loaded under both protobuf backends; the public-attribute snapshot of the loaded IR must equal the original's (which must equal what the spec implies), deep_eq must hold both ways, the re-saved file must have the same content (never-read AuxData byte for byte) and so must a third save after all AuxData was read. Sampling, not proof.",
    "Trusts vlib/spec.py, irbuild.py, snapshot.py, refmsg.py (harness), the protobuf runtime, vlib/protoc_lite.py.",
)
add(
    "C02",
    "two one-directional differentials (writer, reader) against an independent rendition of the .proto schema, under both protobuf backends",
    "Exploration: for generated IR specs (quick 4.5k, thorough ~60k) the writer's message (parsed with the generated classes) must equal, field by field, the message a reference writer builds straight from the spec (presence flags, one-ofs, enum numbers, attribute flags, cfg.vertices, 16-byte UUIDs, 8-byte header), and the loader must turn reference-written messages - including variations no Python writer emits (address without presence flag, duplicated flags/attributes/edges, arbitrary vertices, reordered repeated fields, every declared enum number) - into exactly the IR a reference reader computes. Sampling, not proof.",
    "Trusts vlib/refmsg.py (reference writer/reader over the generated message classes), vlib/protoc_lite.py, the protobuf runtime.",
)
add(
    "C03",
    "stateful testing over generated operation histories; model-free invariant (lookup == reachability by iteration) after every step and after failed steps",
    "Exploration: Hypothesis op programs (quick 6k, thorough 100k histories of up to 40 ops, swarm-selected from ~45 mutation entry points: parent setters, all set methods and in-place operators on the five owning sets, all MutableSequence mutators on ir.modules, constructors with parent= / children arguments, load(save()) twins with equal UUIDs, unrelated edits) over 3+ IRs; after every op, for every IR and every UUID ever seen plus fresh ones, get_by_uuid must return exactly the node reached by containment iteration. Sampling of histories, not proof.",
    "Trusts vlib/forest.py (interpreter + precondition bookkeeping for UUID distinctness), Hypothesis.",
)
add(
    "C04",
    "stateful model-based testing (child->parent reference model) plus both-ends consistency, derived-accessor, aggregate-iterator and frame-condition invariants; isolation cases for shared mutable arguments",
    "Exploration: the C03 histories (other seeds) are judged after every op by: membership <=> parent attribute for all six relations, single ownership, len vs iteration, the reference model's parent of every node (old parent forgot the node; unnamed nodes did not move), module order, .ir/.module/.section, all aggregate iterators of IR/Module/Section as multisets, and an attribute frame condition; 10% of cases construct pairs of nodes with default or shared mutable arguments and check they share no state. Sampling, not proof.",
    "Trusts vlib/forest.py (model), Hypothesis. Re-inserting a module into the list already holding it (insert, item and slice assignment) must give the built-in result minus the module's old occurrence; only the same module named twice inside one argument is judged by uniqueness/membership alone.",
)
add(
    "C10",
    "stateful model-based testing: forest + symbol-state reference model, all lookups re-evaluated after every step",
    "Exploration: Hypothesis op programs (quick 6k, thorough 100k histories) mixing symbol renames (colliding names incl. ''), payload switches between block / proxy / int (0 included) / None through every entry point, symbol add/remove/move from both ends, referent and container moves and load(save()); after every op symbols_named for every module x every pool name and references for every block/proxy must equal, duplicate-free, what the model (module membership, name, payload, block's current module) implies. Sampling, not proof.",
    "Trusts vlib/forest.py (model), Hypothesis.",
)
add(
    "C16",
    "differential testing against built-in list/set/dict semantics over generated call sequences (stateful), with move semantics for owned nodes",
    "Exploration: Hypothesis programs (quick 8k, thorough 100k) over the whole collections.abc surface: every MutableSequence call on ir.modules (int / slice / extended-slice get/set/del, insert, append, extend, +=, pop, remove, reverse, clear, index, count, reversed, contains), every MutableSet call on the five node sets (add, discard, remove, pop, clear, update with 0-2 iterables, |= &= -= ^=, | & - ^ and reflected forms with set / frozenset / other wrappers, comparisons, isdisjoint) and every MutableMapping call on symbolic_expressions (incl. popitem, setdefault, update from itself, whole-mapping self-assignment); return values, exception types and resulting contents are compared with the built-in operation, and the forest must equal the reference model after every call, failed calls included. Sampling, not proof.",
    "Trusts CPython list/set/dict as the reference, vlib/forest.py, Hypothesis.",
)
add(
    "C05",
    "stateful model-based testing: edit histories with interleaved lookups, every answer compared with a linear scan of a plain-data reference model",
    "Exploration: Hypothesis edit programs (quick 3k, thorough 80k histories; block offset/size, interval address/size incl. None, block/interval/section/module moves from both ends, new blocks, save+load) with lookups after the edits and a final battery over every block/interval edge +-1 and stepped/empty/inverted ranges at interval, section, module and IR scope; each of the 18 block lookup methods must return, duplicate-free, exactly the scan's answer at interval scope and an answer between the 'inside the declared extent' scan and the plain scan at higher scopes. Sampling, not proof.",
    "Trusts vlib/scan.py (reference model + scans written from the property text), Hypothesis. 'on' ignores the range step (pinned by the suite).",
)
add(
    "C06",
    "stateful model-based testing against linear scans (interval / section lookups and section extents)",
    "Exploration: as C05 with the edit mix on interval addresses (None, 0, near 2^64), sizes (0 included) and moves (quick 5k, thorough 80k histories); byte_intervals_on/at at section/module/IR scope and sections_on/at at module/IR scope must equal the scan exactly (each member once) and Section.address/size must equal the reference extent rule after every edit pattern. Sampling, not proof.",
    "Trusts vlib/scan.py, Hypothesis.",
)
add(
    "C12",
    "metamorphic testing over lookup schedules (same edit history, different lookup placements must give the same final answers) plus scan oracle",
    "Exploration: for each generated edit history (quick 2k, thorough 50k) the history is replayed on fresh structures under the empty schedule, the every-step schedule and up to two generated placements (isolated positions, consecutive bursts, periodic); the final battery's answers must be identical across schedules and equal the scan, and every intermediate burst is checked against the scan. The harness mirrors pending-event counts to report how often the first-use / incremental / rebuild regimes of the lazy index were exercised. Sampling, not proof.",
    "Trusts vlib/scan.py, Hypothesis; the regime classification is evidence only.",
)
add(
    "C13",
    "stateful model-based testing: mapping-op histories on symbolic_expressions with lookups compared with a scan (order and identity included)",
    "Exploration: Hypothesis programs (quick 4k, thorough 60k) of mapping operations (set, del, pop, popitem, setdefault, update from mapping/pairs, clear, whole-mapping assignment incl. self-assignment), interval address/size changes and moves, save+load; symbolic_expressions_at/_at_offset at interval scope must return exactly the ordered list of (interval, offset, expression) triples the scan selects (identity of interval and expression), and at section/module/IR scope an answer between the in-extent scan and the plain scan, per interval in increasing order. Sampling, not proof.",
    "Trusts vlib/scan.py, Hypothesis.",
)
add(
    "C09",
    "identity walk over loaded IRs generated from reference-dense specs; single-fault injection at message level for each reference kind x wrong target, and node positions made to share a UUID",
    "Exploration: quick 5k / thorough 80k cases. Positive: every symbol referent, entry point, edge endpoint (also through the blocks' edge views), expression symbol and AuxData UUID/Offset leaf of the loaded IR must be the very object reached by containment iteration (attached) or a plain uuid.UUID (unattached), and no UUID may be reachable as two objects. Negative: each of the 7 reference kinds is redirected to a missing UUID or to a node of each wrong kind present in the IR; load must raise DeserializationError. Sampling, not proof.",
    "Trusts vlib/spec.py, irbuild.py, auxref.py, the protobuf runtime.",
)
add(
    "C18",
    "differential testing of deep_eq against snapshot equality over generated IR pairs; mechanical single-field perturbation catalogue",
    "Exploration: quick 3k / thorough 50k specs, each with up to 6 perturbations from a catalogue covering every compared field of every node kind (plus the non-compared module order and AuxData values); deep_eq must equal equality of the documented-fields snapshot for every ordered pair among the original, an independently routed copy, a save/load copy and each perturbed copy; on sub-nodes and CFG.deep_eq reflexivity, symmetry, True for corresponding nodes of equal copies and False when the subtree's own content differs are demanded. Sampling, not proof.",
    "Trusts vlib/snapshot.py as the definition of the compared fields, vlib/irbuild.py.",
)
add(
    "C14",
    "stateful model-based testing over tables x action histories x save/load generations, with foreign-encoded (reference encoder) inputs and a reference decoder as judge",
    "Exploration: quick 6k / thorough 80k cases of 1-4 tables built outside gtirb (known, partially unknown at any depth with junk after the first reached unknown node or fully well-formed when the unknown part is unreached, and non-canonical encodings with repeated set elements / mapping keys / rotated order), planted at IR and module level and driven through 1-3 generations of {leave, read, mutate in place, assign with or without reading, retype read or unread}; every written table is compared with the model: byte identity for untouched and for unknown-typed tables, otherwise current type name and reference-decoded value equal to the current value (stale bytes are named as such). Sampling, not proof.",
    "Trusts vlib/auxref.py (encoder/decoder), the model in checks/c14_tables.py, the protobuf runtime.",
)
add(
    "C17",
    "fault enumeration over generated seed files: exhaustive truncations, single-bit flips, header variations and single structural faults per file; random bytes/splices; judged by a coherence checker and a reference reader",
    "Fault enumeration: for each generated seed file (quick 48, thorough 1600 files of 30-800 bytes) one fault family is enumerated completely - every cut point, every bit of every byte, 3 replacement values at every position, every other value of each header byte plus short headers and version-field values, or every single structural fault (every ordered pair of UUID-bearing positions made equal, same-kind triples sharing one UUID, every reference slot x missing / each wrong kind, every enum field x unknown numbers, every UUID field x lengths 0/15/17, payload-less blocks and expressions, contents longer than size) - and random byte strings / splices are tried; each file must be rejected (ValueError where the property names it) or yield an IR that passes the coherence checker (C03+C04 by full walk, distinct UUIDs, typed and attached references, bytes <= size, Enum-typed attributes, re-savable) and equals what a reference reader makes of the file; every unmodified seed must load. Exhaustive per seed file and family, sampled over seed files; hangs are bounded by a per-file 20 s breaker, and four scale files (12k modules, 30k symbols, 30k blocks, 20k edges) must load within it.",
    "Trusts vlib/coherence.py, vlib/refmsg.py (reference reader), vlib/spec.py + irbuild.py (seed files), the protobuf runtime.",
    category="fault_enumeration",
)
