# executed by gen_manifest.py; one add(...) per claimed property
add(
    "C15",
    "exhaustive short-string enumeration + grammar-directed random generation, differential against a reference parser",
    "Exploration: every string over two small alphabets up to a length bound is enumerated exhaustively (quick: 5 letters to length 8; thorough: to length 11, and 4 letters to length 13) and grammar-directed Unicode trees and their single-edit mutants are generated; each is judged by an independent reference parser (verdict, tree, print round trip, exception type, public encode/decode surface). Not a proof: strings beyond the bounds (and beyond ~300 tokens) are unexplored.",
    "Trusts vlib/tngrammar.py (40-line reference parser written from the property's grammar), Hypothesis, CPython.",
)
