"""Regenerates /verif/MANIFEST.json from the table below (kept in one place so
the manifest is always schema-valid).  Run: /venv/bin/python tools/gen_manifest.py"""

import json
import os

ROOT = os.path.dirname(os.path.dirname(os.path.abspath(__file__)))

PY = "/venv/bin/python -m checks.run"

# id -> (technique, category, level text, level note, design_ref)
CHECKS = {}
NOT_YET = {}


def add(pid, technique, text, note, category="exploration", ref=None):
    CHECKS[pid] = dict(technique=technique, text=text, note=note, category=category, ref=ref or "DESIGN.md section 3, " + pid)


exec(open(os.path.join(ROOT, "tools", "manifest_table.py")).read())


def main():
    props = [json.loads(l)["id"] for l in open(os.path.join(ROOT, "properties.jsonl"))]
    checks = []
    na = []
    for pid in props:
        if pid in CHECKS:
            c = CHECKS[pid]
            checks.append(
                {
                    "property_id": pid,
                    "quick_cmd": "%s %s --tier quick" % (PY, pid),
                    "thorough_cmd": "%s %s --tier thorough" % (PY, pid),
                    "evidence_file": "/verif/evidence/%s.json" % pid,
                    "replay_cmd_template": "%s %s --replay {path}" % (PY, pid),
                    "engine": "pbt",
                    "level_claimed": {"category": c["category"], "text": c["text"], "design_ref": c["ref"]},
                    "level_note": c["note"],
                    "technique": c["technique"],
                }
            )
        else:
            na.append({"property_id": pid, "reason": NOT_YET.get(pid, "check not built yet (planned in DESIGN.md section 3); nothing is claimed for it")})
    doc = {
        "version": 1,
        "setup_cmd": "/venv/bin/python -m vlib.bootstrap --setup",
        "hooks": {
            "guard": "CLAYNE_GTIRB_VERIF",
            "enable": "no hooks: every property is observed through the public API; checks build /repo's working tree into /verif/.build (vlib/build.py)",
            "baseline_off_cmd": "cd /repo && /venv/bin/python -m pytest -ra -q -p no:cacheprovider --timeout=900 --continue-on-collection-errors",
            "source_commits": [],
            "add_only": True,
        },
        "engines": [
            {
                "name": "pbt",
                "path": "/verif/vlib",
                "serves_properties": sorted(CHECKS),
                "kind_free_text": "Hypothesis-generated cases (plain-data programs) interpreted against the tree's gtirb and an explicit oracle; collect-then-shrink (delta debugging), sharded over worker processes; exhaustive enumeration where the domain is finite",
            }
        ],
        "checks": checks,
        "notes": "Exit 0 held / 1 VIOLATION / 2 infrastructure error. VERIF_SEED selects the seed, VERIF_REPO redirects the build to a scratch copy (sensitivity runs only). See DESIGN.md.",
        "not_applicable": na,
    }
    with open(os.path.join(ROOT, "MANIFEST.json"), "w") as f:
        json.dump(doc, f, indent=1)
        f.write("\n")
    print("MANIFEST.json: %d checks, %d not_applicable" % (len(checks), len(na)))


if __name__ == "__main__":
    main()
