#!/bin/sh
# Runs the repository's own python tests against the package built from the
# *tree* (the pinned suite imports the installed wheel instead, DESIGN.md 0.1).
set -e
cd /verif
B=$(/venv/bin/python -m vlib.build)
T=$(mktemp -d /tmp/gtirb-treetests.XXXXXX)
trap 'rm -rf "$T"' EXIT
cp -r "${VERIF_REPO:-/repo}/python/tests" "$T/tests"
cd "$T"
PYTHONPATH="$B" /venv/bin/python -m pytest -q -p no:cacheprovider tests "$@"
