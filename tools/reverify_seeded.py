"""Re-confirm every stored seeded change against the current tree.

    /venv/bin/python tools/reverify_seeded.py [name-prefix ...]

For each /verif/seeded/<name>/ the steps of tools/try_seeded.py are repeated
(demo passes on the unmodified tree, patch applies, repository tests pass on
the patched tree, demo fails on the patched tree) and the check of the broken
property is run in the quick tier.  Prints one line per change and a summary;
meta.json files are rewritten only with --write."""

import json
import os
import subprocess
import sys

ROOT = os.path.dirname(os.path.dirname(os.path.abspath(__file__)))


def main():
    args = [a for a in sys.argv[1:] if not a.startswith("--")]
    write = "--write" in sys.argv
    names = sorted(os.listdir(os.path.join(ROOT, "seeded")))
    if args:
        names = [n for n in names if n.startswith(tuple(args))]
    bad = 0
    for n in names:
        d = os.path.join(ROOT, "seeded", n)
        meta = json.load(open(os.path.join(d, "meta.json")))
        prop = meta["breaks_property"]
        caught_by = [c for c, v in meta.get("checks_quick_tier", {}).items() if v.get("verdict") == "caught"] or [prop]
        checks = [prop] if prop in caught_by else caught_by[:1]
        tmp = os.path.join("/tmp", "reverify-" + n)
        subprocess.run(["rm", "-rf", tmp])
        subprocess.run(["cp", "-r", d, tmp])
        cmd = [sys.executable, os.path.join(ROOT, "tools", "try_seeded.py"), tmp, n, prop, "--checks", ",".join(checks)]
        if write:
            cmd.append("--keep")
        p = subprocess.run(cmd, capture_output=True, text=True, cwd=ROOT)
        subprocess.run(["rm", "-rf", tmp])
        try:
            out = json.loads(p.stdout[p.stdout.index("{"):])
        except Exception:  # noqa
            print("%-62s ERROR %s" % (n, (p.stdout + p.stderr)[-200:].replace("\n", " ")))
            bad += 1
            continue
        verdicts = {c: v["verdict"] for c, v in out.get("checks_quick_tier", {}).items()}
        ok = out.get("confirmed") and all(v == "caught" for v in verdicts.values())
        print("%-62s %s confirmed=%s %s" % (n, "ok " if ok else "BAD", out.get("confirmed"), verdicts), flush=True)
        bad += 0 if ok else 1
    print("re-verified %d seeded changes, %d need attention" % (len(names), bad))
    return 1 if bad else 0


if __name__ == "__main__":
    sys.exit(main())
