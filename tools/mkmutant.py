"""mkmutant.py NAME FILE (reads OLD and NEW blocks from stdin separated by a line '=====')
Creates /verif/mutants/NAME.patch replacing OLD by NEW (exactly one occurrence) in /repo/FILE."""
import difflib
import os
import sys

name, rel = sys.argv[1], sys.argv[2]
old, new = sys.stdin.read().split("\n=====\n")
new = new.rstrip("\n") + "\n" if new.strip("\n") else ""
old = old.rstrip("\n") + "\n"
src = open(os.path.join("/repo", rel)).read()
if src.count(old) != 1:
    sys.exit("OLD occurs %d times in %s" % (src.count(old), rel))
dst = src.replace(old, new)
diff = difflib.unified_diff(src.splitlines(True), dst.splitlines(True), "a/" + rel, "b/" + rel)
out = os.path.join(os.path.dirname(os.path.dirname(os.path.abspath(__file__))), "mutants", name + ".patch")
open(out, "w").write("".join(diff))
print("wrote", out)
