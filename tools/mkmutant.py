"""mkmutant.py NAME [FILE]   (stdin: one or more edits)

Edit syntax on stdin, edits separated by a line '#####':
    [FILE: path/relative/to/repo]      (optional when FILE is given on the command line)
    <old text>
    =====
    <new text>
Each <old text> must occur exactly once in its file (after the earlier edits).
Writes /verif/mutants/NAME.patch (unified diff against the current /repo tree)."""
import difflib
import os
import sys

name = sys.argv[1]
default_file = sys.argv[2] if len(sys.argv) > 2 else None
edits = sys.stdin.read().split("\n#####\n")
files = {}
for ed in edits:
    rel = default_file
    if ed.startswith("FILE:"):
        first, ed = ed.split("\n", 1)
        rel = first[5:].strip()
    old, new = ed.split("\n=====\n")
    new = new.rstrip("\n") + "\n" if new.strip("\n") else ""
    old = old.rstrip("\n") + "\n"
    if rel not in files:
        src = open(os.path.join("/repo", rel)).read()
        files[rel] = [src, src]
    cur = files[rel][1]
    if cur.count(old) != 1:
        sys.exit("OLD occurs %d times in %s:\n%s" % (cur.count(old), rel, old))
    files[rel][1] = cur.replace(old, new)
out = os.path.join(os.path.dirname(os.path.dirname(os.path.abspath(__file__))), "mutants", name + ".patch")
with open(out, "w") as f:
    for rel, (src, dst) in sorted(files.items()):
        f.write("".join(difflib.unified_diff(src.splitlines(True), dst.splitlines(True), "a/" + rel, "b/" + rel)))
print("wrote", out)
