"""Confirm and evaluate a seeded change produced by a sub-agent.

    /venv/bin/python tools/try_seeded.py <src dir with patch.diff, demo.py, notes.md> <name> <property> [--checks C05,C12] [--keep]

Steps (all on scratch copies under /tmp, removed afterwards):
  1. demo.py passes on the unmodified tree;
  2. the patch applies; the repository's python tests still pass against the patched tree;
  3. demo.py fails on the patched tree;
  4. the named checks (default: the property's own) are run in the quick tier against the patched tree.
With --keep the change is stored as /verif/seeded/<name>/ (patch.diff, demo.py, notes.md, meta.json).
"""

import argparse
import json
import os
import shutil
import subprocess
import sys

ROOT = os.path.dirname(os.path.dirname(os.path.abspath(__file__)))
sys.path.insert(0, ROOT)
from tools import sensitivity  # noqa


def build_path(repo):
    p = subprocess.run([sys.executable, "-m", "vlib.build"], cwd=ROOT, env=dict(os.environ, VERIF_REPO=repo),
                       capture_output=True, text=True)
    return p.stdout.strip().splitlines()[-1] if p.returncode == 0 and p.stdout.strip() else None


def run_demo(repo, demo):
    b = build_path(repo)
    if not b:
        return None, "build failed"
    p = subprocess.run([sys.executable, demo], env=dict(os.environ, PYTHONPATH=b), capture_output=True, text=True, timeout=600,
                       cwd="/tmp")
    return p.returncode, (p.stdout + p.stderr)[-400:]


def tree_tests(repo):
    p = subprocess.run([os.path.join(ROOT, "tools", "tree_tests.sh")], env=dict(os.environ, VERIF_REPO=repo),
                       capture_output=True, text=True, timeout=900)
    return p.returncode, p.stdout.strip().splitlines()[-1] if p.stdout.strip() else p.stderr[-200:]


def main():
    ap = argparse.ArgumentParser()
    ap.add_argument("src")
    ap.add_argument("name")
    ap.add_argument("prop")
    ap.add_argument("--checks", default=None)
    ap.add_argument("--keep", action="store_true")
    ap.add_argument("--seed", type=int, default=1)
    args = ap.parse_args()
    patch = os.path.join(args.src, "patch.diff")
    demo = os.path.join(args.src, "demo.py")
    meta = {"breaks_property": args.prop, "name": args.name}
    clean = sensitivity.make_copy()
    mut = sensitivity.make_copy()
    try:
        rc, out = run_demo(clean, demo)
        meta["demo_on_unmodified_tree"] = {"rc": rc, "tail": out}
        ap_ = subprocess.run(["patch", "-p1", "-s", "-d", mut, "-i", os.path.abspath(patch)], capture_output=True, text=True)
        meta["patch_applies"] = ap_.returncode == 0
        if ap_.returncode != 0:
            print("PATCH FAILED", ap_.stdout, ap_.stderr)
            return 2
        rc_t, tail = tree_tests(mut)
        meta["repo_python_tests_on_patched_tree"] = {"rc": rc_t, "tail": tail}
        pin = subprocess.run("cd /repo && /venv/bin/python -m pytest -q -p no:cacheprovider 2>&1 | tail -1", shell=True, capture_output=True, text=True)
        meta["pinned_suite"] = pin.stdout.strip() + " (imports the installed wheel: unaffected by any tree change)"
        rc2, out2 = run_demo(mut, demo)
        meta["demo_on_patched_tree"] = {"rc": rc2, "tail": out2}
        checks = (args.checks or args.prop).split(",")
        results = {}
        for c in checks:
            rc3, out3, wall = sensitivity.run_check(c, mut, "quick", args.seed)
            buckets = [l.strip() for l in out3.splitlines() if l.startswith("  bucket")]
            results[c] = {"rc": rc3, "verdict": {1: "caught", 0: "missed", 2: "harness-error"}.get(rc3, str(rc3)),
                          "wall_s": round(wall, 1), "buckets": [b[:200] for b in buckets[:4]]}
        meta["checks_quick_tier"] = results
        ok = meta["demo_on_unmodified_tree"]["rc"] == 0 and rc_t == 0 and rc2 not in (0, None)
        meta["confirmed"] = bool(ok)
        print(json.dumps(meta, indent=1))
        if args.keep and ok:
            dest = os.path.join(ROOT, "seeded", args.name)
            os.makedirs(dest, exist_ok=True)
            shutil.copy(patch, os.path.join(dest, "patch.diff"))
            shutil.copy(demo, os.path.join(dest, "demo.py"))
            if os.path.exists(os.path.join(args.src, "notes.md")):
                shutil.copy(os.path.join(args.src, "notes.md"), os.path.join(dest, "notes.md"))
            with open(os.path.join(dest, "meta.json"), "w") as f:
                json.dump(meta, f, indent=1)
        return 0 if ok else 1
    finally:
        shutil.rmtree(clean, ignore_errors=True)
        shutil.rmtree(mut, ignore_errors=True)


if __name__ == "__main__":
    sys.exit(main())
