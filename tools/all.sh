#!/bin/sh
# tools/all.sh <tier> <seed>...   run every registered check (or those in $CHECKS) at the given seeds; summary on stdout
tier=${1:-quick}; shift
seeds=${*:-1}
cd "$(dirname "$0")/.."
for s in $seeds; do
  for c in ${CHECKS:-C01 C02 C03 C04 C05 C06 C07 C08 C09 C10 C11 C12 C13 C14 C15 C16 C17 C18 C19}; do
    out=$(VERIF_SEED=$s /venv/bin/python -m checks.run $c --tier $tier 2>&1); rc=$?
    echo "seed=$s rc=$rc $(echo "$out" | tail -1)"
    if [ $rc -ne 0 ]; then echo "$out" | head -30; fi
  done
done
