"""Sensitivity runs: apply each patch under /verif/mutants (or /verif/seeded/*/patch.diff)
to a scratch copy of the repository and require the owning check to exit 1.

    /venv/bin/python tools/sensitivity.py [--tier quick] [--seed N] [--only C05] [patch ...]

Patch file names start with the property id whose check must catch them
("C05-drop-discard.patch"); a name may list several ids ("C03,C04-...").
The scratch copy lives under /tmp and is removed afterwards.
"""

import argparse
import glob
import os
import shutil
import subprocess
import sys
import tempfile
import time

ROOT = os.path.dirname(os.path.dirname(os.path.abspath(__file__)))
NEEDED = ["python/gtirb", "python/tests", "python/version.py.in", "proto", "version.txt", "java/com/grammatech/gtirb"]


def make_copy(repo=None):
    # the tree the mutants are applied to: /repo, or a snapshot of it (SENS_REPO)
    repo = repo or os.environ.get("SENS_REPO", "/repo")
    d = tempfile.mkdtemp(prefix="gtirb-mut-")
    for rel in NEEDED:
        src = os.path.join(repo, rel)
        dst = os.path.join(d, rel)
        os.makedirs(os.path.dirname(dst), exist_ok=True)
        if os.path.isdir(src):
            shutil.copytree(src, dst, ignore=shutil.ignore_patterns("__pycache__"))
        else:
            shutil.copy(src, dst)
    return d


def owners(patch):
    base = os.path.basename(patch)
    if base == "patch.diff":
        base = os.path.basename(os.path.dirname(patch))
    head = base.split("-")[0]
    return [p for p in head.split(",") if p.startswith("C")]


def run_check(pid, repo, tier, seed):
    env = dict(os.environ, VERIF_REPO=repo, VERIF_SEED=str(seed))
    t0 = time.time()
    p = subprocess.run(
        [sys.executable, "-m", "checks.run", pid, "--tier", tier],
        cwd=ROOT, env=env, capture_output=True, text=True,
    )
    return p.returncode, p.stdout, time.time() - t0


def main():
    ap = argparse.ArgumentParser()
    ap.add_argument("patches", nargs="*")
    ap.add_argument("--tier", default="quick")
    ap.add_argument("--seed", type=int, default=1)
    ap.add_argument("--only", default=None)
    ap.add_argument("--checks", default=None, help="comma list: run these checks instead of the owners")
    args = ap.parse_args()
    patches = args.patches or sorted(glob.glob(os.path.join(ROOT, "mutants", "*.patch")))
    bad = 0
    for patch in patches:
        if args.only and args.only not in owners(patch):
            continue
        pids = args.checks.split(",") if args.checks else owners(patch)
        d = make_copy()
        try:
            ap_ = subprocess.run(["patch", "-p1", "-s", "-d", d, "-i", os.path.abspath(patch)],
                                 capture_output=True, text=True)
            if ap_.returncode != 0:
                print("%-50s PATCH-FAILED %s" % (os.path.basename(patch), ap_.stdout.strip()[:200]))
                bad += 1
                continue
            for pid in pids:
                rc, out, wall = run_check(pid, d, args.tier, args.seed)
                buckets = [l.strip() for l in out.splitlines() if l.startswith("  bucket")]
                verdict = {1: "caught", 0: "MISSED", 2: "HARNESS-ERROR"}.get(rc, "rc=%d" % rc)
                if rc != 1:
                    bad += 1
                name = os.path.basename(patch) if os.path.basename(patch) != "patch.diff" else os.path.basename(os.path.dirname(patch))
                print("%-50s %s %-14s %5.1fs  %s" % (name, pid, verdict, wall, (buckets[0][:110] if buckets else "")))
                if rc == 2:
                    print(out[-1500:])
        finally:
            shutil.rmtree(d, ignore_errors=True)
    # evidence files were rewritten by runs against mutants: say so
    print("note: evidence/*.json now describe mutant runs; re-run the checks on /repo before committing evidence")
    return 1 if bad else 0


if __name__ == "__main__":
    sys.exit(main())
